#!/usr/bin/env python3
"""Regenerates the table of DESIGN.md section 10.1 from the evidence files: quick numbers from
/verif/evidence/<id>.json (tier quick), thorough numbers from the copies given as a directory
argument (files thorough_evidence_<id>.json, made while running the thorough tiers).  The last
column (departures from the design) is kept from the existing table."""
import json, re, sys, os
thor = sys.argv[1] if len(sys.argv) > 1 else None
design = open('/verif/DESIGN.md').read()
m = re.search(r"(### 10\.1[^\n]*\n\n)(\|.*?\n)\n", design, re.S)
rows = [r for r in m.group(2).strip().split('\n')]
keep = {}
for r in rows[2:]:
    c = [x.strip() for x in r.strip('|').split('|')]
    keep[c[0]] = c[-1]
def fmt(n):
    return f"{n/1e6:.2f} M" if n >= 1e6 else (f"{n/1e3:.1f} k" if n >= 1e4 else str(n))
out = ["| id  | quick: executions on the real code / distinct non-trivial cases / wall | thorough: executions / wall | departures from sections 2-4 |", "|-----|---|---|---|"]
for i in range(1, 19):
    pid = f"C{i:02d}"
    q = json.load(open(f'/verif/evidence/{pid}.json'))
    assert q['tier'] == 'quick', pid
    qc = q['coverage']
    t = ""
    if thor and os.path.exists(f'{thor}/thorough_evidence_{pid}.json'):
        e = json.load(open(f'{thor}/thorough_evidence_{pid}.json'))
        if e['tier'] == 'thorough':
            t = f"{fmt(e['coverage']['evaluations'])} / {e['wall_s']:.0f} s"
    out.append(f"| {pid} | {fmt(qc['evaluations'])} / {fmt(qc['distinct_nontrivial'])} / {q['wall_s']:.1f} s | {t} | {keep.get(pid, '')} |")
new = design[:m.start(2)] + "\n".join(out) + "\n" + design[m.end(2):]
open('/verif/DESIGN.md', 'w').write(new)
print("\n".join(out))
