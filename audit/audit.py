#!/usr/bin/env python3
"""Audit of the double-double reference model against mpmath (run under python3-vt).
usage: audit.py <path to refaudit binary> <quick|thorough>
Every Taylor coefficient c_k = g^(k)(a0)/k! printed by `refaudit` must agree with mpmath at
70 digits to 1e-24 relative to max(|c_k|, scale) where scale is the magnitude of the
coefficient family at that point (so that coefficients which are zero by symmetry compare on
an absolute scale)."""
import subprocess, sys
from mpmath import mp, mpf, taylor, besselj, sin, cos, factorial, binomial
import mpmath as M
mp.dps = 70

def cyl_taylor(n, x, K):
    # d^k/dx^k J_n = 2^-k sum_i (-1)^i C(k,i) J_{n-k+2i}
    out = []
    for k in range(K + 1):
        s = mpf(0)
        for i in range(k + 1):
            s += (-1) ** i * binomial(k, i) * besselj(n - k + 2 * i, x)
        out.append(s / mpf(2) ** k / factorial(k))
    return out

def sph(n):
    def f(x):
        if x == 0:
            return mpf(1) if n == 0 else mpf(0)
        if abs(x) < mpf('0.5'):
            # series, avoids cancellation
            s = mpf(0)
            for m in range(40):
                s += (-1) ** m * x ** (2 * m + n) / (mpf(2) ** m * factorial(m) * M.fac2(2 * m + 2 * n + 1))
            return s
        if n == 0:
            return sin(x) / x
        if n == 1:
            return (sin(x) - x * cos(x)) / x ** 2
        return ((3 - x * x) * sin(x) - 3 * x * cos(x)) / x ** 3
    return f

FUN = {
    'recip': lambda p: (lambda x: 1 / x), 'sqrt': lambda p: M.sqrt, 'cbrt': lambda p: None,
    'exp': lambda p: M.exp, 'exp2': lambda p: (lambda x: mpf(2) ** x), 'expm1': lambda p: M.expm1,
    'ln': lambda p: M.log, 'log': lambda p: (lambda x: M.log(x) / M.log(mpf(p))),
    'log2': lambda p: (lambda x: M.log(x) / M.log(2)), 'log10': lambda p: (lambda x: M.log(x) / M.log(10)),
    'ln1p': lambda p: M.log1p, 'sin': lambda p: M.sin, 'cos': lambda p: M.cos, 'tan': lambda p: M.tan,
    'asin': lambda p: M.asin, 'acos': lambda p: M.acos, 'atan': lambda p: M.atan, 'sinh': lambda p: M.sinh,
    'cosh': lambda p: M.cosh, 'tanh': lambda p: M.tanh, 'asinh': lambda p: M.asinh, 'acosh': lambda p: M.acosh,
    'atanh': lambda p: M.atanh, 'powi': lambda p: (lambda x: x ** int(p)), 'powf': lambda p: (lambda x: x ** mpf(p)),
}

def gen_binom(p, x, K):
    out = []
    for k in range(K + 1):
        c = mpf(1)
        for i in range(k):
            c *= (mpf(p) - i)
        c /= factorial(k)
        if p - k == 0:
            out.append(c)
        elif x == 0:
            out.append(mpf(0) if (p - k > 0 or c == 0) else mpf('inf'))
        else:
            sgn = 1
            ax = x
            if x < 0:
                ax = -x
                # only integer or 1/3 powers reach here with negative x
                if p == mpf(1) / 3:
                    # cbrt: odd function;  x^(1/3-k) = sign * |x|^(1/3) / x^k
                    out.append(c * (-(ax ** p)) / x ** k)
                    continue
                sgn = -1 if (int(p) - k) % 2 else 1
            out.append(c * sgn * ax ** (mpf(p) - k))
    return out

def main():
    exe, tier = sys.argv[1], sys.argv[2]
    txt = subprocess.run([exe, tier], capture_output=True, text=True, check=True).stdout
    worst = mpf(0); worst_line = ''; n = 0; bad = 0
    for line in txt.splitlines():
        t = line.split()
        name, par, x = t[0], float(t[1]), float(t[2])
        vals = [mpf(float(t[3 + 2 * i])) + mpf(float(t[4 + 2 * i])) for i in range((len(t) - 3) // 2)]
        K = len(vals) - 1
        xm = mpf(x)
        if name == 'besselj':
            ref = cyl_taylor(int(par), xm, K)
        elif name == 'sphj':
            if abs(x) < 1e-3:
                # exact Maclaurin shift
                nn = int(par); ref = []
                for k in range(K + 1):
                    s = mpf(0)
                    for m in range(30):
                        d = 2 * m + nn
                        if d < k: continue
                        a = (-1) ** m / (mpf(2) ** m * factorial(m) * M.fac2(2 * m + 2 * nn + 1))
                        s += a * binomial(d, k) * xm ** (d - k)
                    ref.append(s)
            else:
                mp.dps = 120
                ref = taylor(sph(int(par)), xm, K)
                mp.dps = 70
        elif name in ('recip',):
            ref = gen_binom(-1, xm, K)
        elif name == 'sqrt':
            ref = gen_binom(mpf(1) / 2, xm, K)
        elif name == 'cbrt':
            ref = gen_binom(mpf(1) / 3, xm, K)
        elif name == 'powi':
            ref = gen_binom(int(par), xm, K)
        elif name == 'powf':
            ref = gen_binom(mpf(par), xm, K)
        else:
            mp.dps = 120
            ref = taylor(FUN[name](par), xm, K)
            mp.dps = 70
        scale = max([abs(r) for r in ref] + [mpf(10) ** -300])
        for k, (v, r) in enumerate(zip(vals, ref)):
            n += 1
            # coefficients that vanish by symmetry are compared on the scale of the family
            err = abs(v - r) / max(abs(r), scale * mpf(10) ** -6)
            if err > worst:
                worst = err; worst_line = f'{name} par={par} x={x!r} k={k} got={M.nstr(v, 35)} want={M.nstr(r, 35)}'
            if err > mpf(10) ** -24:
                bad += 1
                if bad <= 20:
                    print(f'AUDIT MISMATCH {name} par={par} x={x!r} k={k} got={M.nstr(v, 35)} want={M.nstr(r, 35)} err={M.nstr(err, 5)}')
    print(f'audit: {n} coefficients compared, worst relative error {M.nstr(worst, 5)} at {worst_line}')
    if bad:
        print(f'audit: {bad} mismatches'); sys.exit(2)

main()
