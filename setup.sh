#!/bin/sh
# setup_cmd: offline build of the whole framework from files on disk, then the reference audit.
set -e
export CARGO_NET_OFFLINE=true
mkdir -p /verif/target /verif/evidence /verif/replays
cd /verif/mc
cargo build --release --offline --workspace 2>&1 | tail -3
python3-vt /verif/audit/audit.py /verif/target/release/refaudit quick
echo "setup ok"
