#!/bin/sh
# setup_cmd: offline build of the whole framework from files on disk, then the reference audit.
set -e
export CARGO_NET_OFFLINE=true
mkdir -p /verif/target /verif/evidence /verif/replays
cd /verif/mc
cargo build --release --offline --workspace 2>&1 | tail -3
# second build: num-dual compiled with overflow checks and debug assertions (./check runs its quick tier first)
cargo build --profile checked --offline --workspace 2>&1 | tail -3
python3-vt /verif/audit/audit.py /verif/target/release/refaudit quick
# the Python extension for C17 (dev profile; rebuilt incrementally by ./check C17)
mkdir -p /verif/target/py/site
(cd /repo && PYO3_PYTHON=/opt/veriftools/pyvenv/bin/python cargo rustc --lib --features python --offline --crate-type cdylib --target-dir /verif/target/py -q 2>&1 | tail -3)
cp /verif/target/py/debug/libnum_dual.so /verif/target/py/site/num_dual.abi3.so
echo "setup ok"
