#!/usr/bin/env python3
"""Regenerates /verif/MANIFEST.json from the table below (run by hand after adding a check)."""
import json
ALL = [f"C{i:02d}" for i in range(1, 19)]
TECH = "bounded exhaustive enumeration of operations/configurations/operand grids on the real code against a reference model (explicit-state, depth 1)"
TECH_BFS = "explicit-state breadth-first exploration of operation sequences on the real code with canonical state de-duplication, lock-step reference model"
NOTE = "Trusts rustc/cargo, nalgebra/simba/num-traits, glibc libm within a few ulp, and the refmodel crate (audited against mpmath by audit/audit.py). Real parts and exponents are grid/lattice points, not all floats."
CHECKS = {
 "C01": ("Every interface function x every dual number type of the universe (f32/f64, static, dynamic, nested) x the domain grid x every presence pattern x the full tensor grid of derivative-part values is executed on the real code and compared part by part with the reference algebra over double-double (ODE-generated Taylor coefficients) within kappa*u*(sum of contributing term magnitudes). Agreement on the full tensor grid decides the structure of every chain rule for all operand parts.", TECH, "DESIGN 4 C01"),
 "C02": ("Exhaustive enumeration, on the real code, of every arithmetic operation x every dual number type x every presence pattern x the full dyadic tensor grid of operand parts (degree+1 values per part), each compared part by part with an exact rational reference algebra; by the grid lemma agreement on the tensor grid decides the polynomial identity for all operand parts.", TECH, "DESIGN 4 C02"),
 "C03": ("Breadth-first exploration of all straight-line programs (length <= 2 over a 66-operation alphabet; thorough: length 3 over the family alphabet) on registers with re-use (DAGs), executed in lock-step on the real types and in the reference algebra, every intermediate value compared in every derivative part within the propagated first-order rounding bound; states (register files) de-duplicated by canonical hash.", TECH_BFS, "DESIGN 4 C03"),
 "C04": ("All programs of length <= 2 over the family alphabet are evaluated through every route (dual number type x seeding) of the universe - third order: Dual3, triply nested Dual, HyperHyperDual, Dual<Dual2>, Dual2<Dual>; second order: Dual2, Dual2Vec, HyperDual, HyperDualVec, Dual<Dual>; vector types n = 1..6 static and dynamic; f32 - and every pair of routes exposing the same partial derivative is compared (differential oracle, reference values not used); plus the compile-time NDERIV table of all 584 nestings up to depth 3.", TECH_BFS, "DESIGN 4 C04"),
 "C07": ("Abstraction alpha (absent -> zeros). Depth 1: 53 operations x alpha-operand tuples x ALL 2^k absent/explicit-zero encodings on the real vector types; histories: breadth-first exploration of sequences (quick 3, thorough 4) of 13 accumulator updates from every encoding, states = alpha-classes with the set of concrete encodings reaching them, de-duplicated by canonical hash. Oracle: bisimulation (alpha(result) identical for all encodings) plus exact rational reference where no rounding can occur.", TECH_BFS, "DESIGN 4 C07"),
 "C09": ("powi for every integer exponent in [-2050,2050] plus all powers of two +-1 up to 2^30 and the i32 overflow thresholds, on bases +-(1+-2^-j); powf for 0,1,2,3,4, half-integers, negative, large exponents and both float neighbours of 1,2,3; powd on the full tensor grid of dual exponents; each executed on the real types and compared with generalized-binomial jets in double-double; the three power functions, repeated multiplication/division and exp(n ln x) are evaluated at the same operands (mutual agreement through the common reference).", TECH, "DESIGN 4 C09"),
 "C10": ("Every enumerated removable/special point (powers at zero, Bessel and spherical Bessel at zero and around their switches, atan2 on both axes, exp_m1/ln_1p at zero, with float neighbours and denormals) x every type x every presence pattern x the tensor grid of derivative parts is executed on the real code; every part must be finite and equal the Maclaurin/limit value of the reference within tolerance.", TECH, "DESIGN 4 C10"),
 "C14": ("bessel_j0/j1/j2 on the f64 Copy dual types (scalar, static vector, nested up to fourth order) are executed at every point of the lattice k/64 in [-60,60] plus 0, denormals, 1e-300, 1e-8, the switch points 1e-5 and 5 with float neighbours, with generic non-unit parts, and compared with Miller-recurrence / Maclaurin values in double-double and Bessel-ODE series jets; parity f(-X) = +-f(X) is checked bit for bit at every point.", TECH, "DESIGN 4 C14"),
 "C15": ("sph_j0/1/2 on plain floats and dual types over both widths are executed at every point of the lattice k/64 in [-50,50] plus zero, denormals, +-eps and its float neighbours, small non-zero arguments, with generic non-unit derivative parts, and compared with Maclaurin/closed forms in double-double and their series jets.", TECH, "DESIGN 4 C15"),
}
def chk(pid):
    text, tech, ref = CHECKS[pid]
    return {"property_id": pid, "quick_cmd": f"./check {pid} quick", "thorough_cmd": f"./check {pid} thorough",
            "evidence_file": f"/verif/evidence/{pid}.json", "replay_cmd_template": f"./check {pid} quick --replay {{path}}",
            "engine": "mc", "level_claimed": {"category": "model_checking", "text": text, "design_ref": ref},
            "level_note": NOTE, "technique": tech}
m = {"version": 1, "setup_cmd": "./setup.sh",
     "hooks": {"guard": "(none needed)", "enable": "no hooks: every field of every type is public; checks build /repo as a path dependency with features linalg,serde",
               "baseline_off_cmd": "cd /repo && cargo nextest run --workspace --no-fail-fast --tool-config-file pb:/w/lib/nextest.toml --profile pb --test-threads 8 --offline || (cd /repo && cargo test --workspace --no-fail-fast --offline)",
               "source_commits": [], "add_only": True},
     "engines": [{"name": "mc", "path": "/verif/mc", "serves_properties": sorted(CHECKS), "kind_free_text": "Rust workspace: reference algebra (exact dyadic / double-double), layouts binding every num-dual type to it, exhaustive product-space and BFS explorers executed on the real code"}],
     "checks": [chk(p) for p in sorted(CHECKS)],
     "notes": "See DESIGN.md. Checks are deterministic (VERIF_SEED recorded, unused). Known findings: KNOWN_FINDINGS.txt.",
     "not_applicable": [{"property_id": p, "reason": "check under construction (DESIGN.md section 9 build order); not yet claimed"} for p in ALL if p not in CHECKS]}
json.dump(m, open('/verif/MANIFEST.json', 'w'), indent=1)
print("checks:", sorted(CHECKS))
