//! Explorer infrastructure shared by all property binaries: parallel exhaustive enumeration,
//! statistics, violations with signatures, known-findings matching, replay artefacts, evidence.

use serde_json::{json, Value};
use std::collections::{BTreeMap, HashSet};
use std::hash::{Hash, Hasher};
use std::sync::atomic::{AtomicUsize, Ordering};
use std::sync::Mutex;
use std::time::Instant;

pub const VERIF: &str = "/verif";

/// where replays and evidence are written: /verif, or a scratch directory when a seeded change is
/// evaluated in a parallel lane (seeded/lane.sh) so that the committed evidence is not touched
pub fn out_root() -> String {
    std::env::var("VERIF_OUT").unwrap_or_else(|_| VERIF.to_string())
}

#[derive(Clone, Copy, Debug, PartialEq, Eq)]
pub enum Mode {
    Quick,
    Thorough,
}

pub struct Cli {
    pub mode: Mode,
    pub replay: Option<String>,
    pub seed: i64,
}

pub fn cli() -> Cli {
    let args: Vec<String> = std::env::args().skip(1).collect();
    let mut mode = match std::env::var("VERIF_TIER").ok().as_deref() {
        Some("thorough") => Mode::Thorough,
        _ => Mode::Quick,
    };
    let mut replay = None;
    let mut i = 0;
    while i < args.len() {
        match args[i].as_str() {
            "quick" => mode = Mode::Quick,
            "thorough" => mode = Mode::Thorough,
            "--replay" => {
                i += 1;
                replay = Some(args.get(i).cloned().unwrap_or_else(|| machinery("--replay needs a file")));
            }
            other => machinery(&format!("unknown argument {other}")),
        }
        i += 1;
    }
    let seed = std::env::var("VERIF_SEED").ok().and_then(|s| s.parse().ok()).unwrap_or(0);
    Cli { mode, replay, seed }
}

pub fn machinery(msg: &str) -> ! {
    eprintln!("MACHINERY ERROR: {msg}");
    std::process::exit(2)
}

pub fn hash64<T: Hash>(t: &T) -> u64 {
    let mut h = std::collections::hash_map::DefaultHasher::new();
    t.hash(&mut h);
    h.finish()
}

#[derive(Clone, Debug)]
pub struct Violation {
    /// stable signature: `<op> <type class> <input class> <part class>`
    pub sig: String,
    /// everything needed to replay the case without the explorer
    pub case: Value,
    /// human readable description
    pub what: String,
}

const DISTINCT_CAP: usize = 6_000_000;

/// Per-worker statistics, merged at the end (deterministic: merged in worker order and all
/// aggregate values are order independent).
#[derive(Default)]
pub struct Stats {
    pub evaluations: u64,
    pub transitions: u64,
    pub nontrivial: HashSet<u64>,
    pub states: HashSet<u64>,
    pub outcomes: HashSet<u64>,
    pub distinct_capped: bool,
    pub violations: BTreeMap<String, (u64, Violation)>,
    pub samples: Vec<Value>,
    pub counters: BTreeMap<String, u64>,
    /// per class: worst observed ratio |impl - ref| / (u * M) and where
    pub worst: BTreeMap<String, (f64, String)>,
    pub max_depth: u64,
    /// violations that carry an input hash, kept one by one: (signature, input hash) -> violation
    pub by_input: BTreeMap<(String, u64), Violation>,
}

impl Stats {
    pub fn state(&mut self, h: u64) {
        if self.states.len() < DISTINCT_CAP {
            self.states.insert(h);
        } else {
            self.distinct_capped = true;
        }
    }
    pub fn outcome(&mut self, h: u64) {
        if self.outcomes.len() < DISTINCT_CAP {
            self.outcomes.insert(h);
        } else {
            self.distinct_capped = true;
        }
    }
    pub fn nontrivial(&mut self, h: u64) {
        if self.nontrivial.len() < DISTINCT_CAP {
            self.nontrivial.insert(h);
        } else {
            self.distinct_capped = true;
        }
    }
    pub fn count(&mut self, key: &str, n: u64) {
        *self.counters.entry(key.to_string()).or_insert(0) += n;
    }
    pub fn violation(&mut self, v: Violation) {
        let e = self.violations.entry(v.sig.clone()).or_insert_with(|| (0, v));
        e.0 += 1;
    }
    /// a violation identified by the hash of its specific input (for findings that are listed
    /// input by input)
    pub fn violation_with_input(&mut self, v: Violation, input: u64) {
        if self.by_input.len() < 500_000 {
            self.by_input.entry((v.sig.clone(), input)).or_insert_with(|| v.clone());
        }
        self.violation(v);
    }
    pub fn ratio(&mut self, class: &str, r: f64, at: impl FnOnce() -> String) {
        match self.worst.get_mut(class) {
            Some(e) => {
                if r > e.0 {
                    *e = (r, at());
                }
            }
            None => {
                self.worst.insert(class.to_string(), (r, at()));
            }
        }
    }
    pub fn sample(&mut self, v: impl FnOnce() -> Value) {
        if self.samples.len() < 4 {
            self.samples.push(v());
        }
    }
    pub fn merge(&mut self, o: Stats) {
        self.evaluations += o.evaluations;
        self.transitions += o.transitions;
        self.distinct_capped |= o.distinct_capped;
        for h in o.nontrivial {
            self.nontrivial(h);
        }
        for h in o.states {
            self.state(h);
        }
        for h in o.outcomes {
            self.outcome(h);
        }
        for (k, (n, v)) in o.violations {
            let e = self.violations.entry(k).or_insert_with(|| (0, v));
            e.0 += n;
        }
        for (k, v) in o.by_input {
            if self.by_input.len() < 500_000 {
                self.by_input.entry(k).or_insert(v);
            }
        }
        for s in o.samples {
            if self.samples.len() < 12 {
                self.samples.push(s);
            }
        }
        for (k, n) in o.counters {
            *self.counters.entry(k).or_insert(0) += n;
        }
        for (k, (r, at)) in o.worst {
            match self.worst.get_mut(&k) {
                Some(e) => {
                    if r > e.0 {
                        *e = (r, at);
                    }
                }
                None => {
                    self.worst.insert(k, (r, at));
                }
            }
        }
        self.max_depth = self.max_depth.max(o.max_depth);
    }
}

/// Run `f(index, stats)` for every index in 0..n on all cores; chunks are handed out dynamically,
/// results are merged into `total`.  A panic inside `f` whose message starts with `MACHINERY`
/// aborts the run with exit code 2.
pub fn par_for<Fn_: Fn(usize, &mut Stats) + Sync>(n: usize, total: &mut Stats, f: Fn_) {
    let threads = std::thread::available_parallelism().map(|x| x.get()).unwrap_or(8).min(16);
    let chunk = (n / (threads * 16)).max(1);
    let next = AtomicUsize::new(0);
    let merged = Mutex::new(Stats::default());
    std::thread::scope(|s| {
        for _ in 0..threads {
            s.spawn(|| {
                let mut local = Stats::default();
                loop {
                    let start = next.fetch_add(chunk, Ordering::Relaxed);
                    if start >= n {
                        break;
                    }
                    for i in start..(start + chunk).min(n) {
                        f(i, &mut local);
                    }
                }
                merged.lock().unwrap().merge(local);
            });
        }
    });
    total.merge(merged.into_inner().unwrap());
}

/// catch a panic of the subject; machinery panics are re-raised as process exit 2
pub fn guarded<T>(f: impl FnOnce() -> T) -> Result<T, String> {
    match std::panic::catch_unwind(std::panic::AssertUnwindSafe(f)) {
        Ok(v) => Ok(v),
        Err(e) => {
            let msg = if let Some(s) = e.downcast_ref::<&str>() {
                s.to_string()
            } else if let Some(s) = e.downcast_ref::<String>() {
                s.clone()
            } else {
                "panic".to_string()
            };
            if msg.starts_with("MACHINERY") {
                eprintln!("{msg}");
                std::process::exit(2);
            }
            Err(msg)
        }
    }
}

pub fn quiet_panics() {
    std::panic::set_hook(Box::new(|info| {
        let s = info.to_string();
        if s.contains("MACHINERY") {
            eprintln!("{s}");
        }
    }));
}

// ------------------------------------------------------------------------------------------------
// known findings

pub struct Known {
    pub property: String,
    pub sig_pattern: String,
    pub text: String,
    /// optional file (relative to /verif) listing, one hex hash per line, the specific inputs this
    /// finding covers; a failing input that is not listed is a new violation
    pub inputs_file: Option<String>,
}

/// pattern language: `*` matches any run of characters, everything else literally
pub fn glob_match(pat: &str, s: &str) -> bool {
    let parts: Vec<&str> = pat.split('*').collect();
    if parts.len() == 1 {
        return pat == s;
    }
    let mut pos = 0usize;
    for (i, p) in parts.iter().enumerate() {
        if i == 0 {
            if !s.starts_with(p) {
                return false;
            }
            pos = p.len();
        } else if i == parts.len() - 1 {
            return s.len() >= pos + p.len() && s[pos..].ends_with(p);
        } else {
            match s[pos..].find(p) {
                Some(k) => pos += k + p.len(),
                None => return false,
            }
        }
    }
    true
}

pub fn load_known(property: &str) -> Vec<Known> {
    let path = format!("{VERIF}/KNOWN_FINDINGS.txt");
    let txt = std::fs::read_to_string(&path).unwrap_or_default();
    let mut out = Vec::new();
    for line in txt.lines() {
        let line = line.trim();
        if !line.starts_with("finding:") {
            continue;
        }
        // finding: property=<id> sig=<pattern, no spaces; use * for spaces> <text>
        let rest = line["finding:".len()..].trim();
        let mut it = rest.splitn(3, ' ');
        let p = it.next().unwrap_or("");
        let s = it.next().unwrap_or("");
        let mut t = it.next().unwrap_or("").to_string();
        let mut inputs_file = None;
        if let Some(r) = t.strip_prefix("inputs=") {
            let mut jt = r.splitn(2, ' ');
            inputs_file = Some(jt.next().unwrap_or("").to_string());
            t = jt.next().unwrap_or("").to_string();
        }
        if let (Some(p), Some(s)) = (p.strip_prefix("property="), s.strip_prefix("sig=")) {
            if p == property {
                out.push(Known { property: p.to_string(), sig_pattern: s.to_string(), text: t, inputs_file });
            }
        }
    }
    out
}

// ------------------------------------------------------------------------------------------------
// final report

pub struct Report<'a> {
    pub property: &'a str,
    pub mode: Mode,
    pub seed: i64,
    pub start: Instant,
    pub rule: String,
    pub assumptions: Vec<String>,
    pub extra: Value,
    pub exhaustive: bool,
    pub caps: Vec<String>,
}

fn sig_key(sig: &str) -> String {
    sig.replace(' ', "_")
}

/// Writes replay files, prints KNOWN-FINDING / VIOLATION lines, writes the evidence file and
/// returns the process exit code.
pub fn finish(rep: Report, stats: Stats) -> i32 {
    let known = load_known(rep.property);
    let mut new_violations = 0;
    let mut known_hits: BTreeMap<String, u64> = BTreeMap::new();
    let _ = std::fs::create_dir_all(format!("{}/replays", out_root()));
    let _ = std::fs::create_dir_all(format!("{}/evidence", out_root()));
    let mut vio_list = Vec::new();
    // maintenance mode (never used by a check): dump the input hashes of the findings that are
    // identified input by input
    if let Ok(dump) = std::env::var("VERIF_DUMP_KNOWN_INPUTS") {
        let mut lines: BTreeMap<String, Vec<String>> = BTreeMap::new();
        for ((sig, h), _) in &stats.by_input {
            if let Some(k) = known.iter().find(|k| k.inputs_file.is_some() && glob_match(&k.sig_pattern, &sig_key(sig))) {
                lines.entry(k.inputs_file.clone().unwrap()).or_default().push(format!("{h:016x}"));
            }
        }
        for (f, mut l) in lines {
            l.sort();
            l.dedup();
            let path = format!("{dump}/{}", f.rsplit('/').next().unwrap());
            std::fs::write(&path, l.join("\n") + "\n").unwrap_or_else(|e| machinery(&format!("cannot write {path}: {e}")));
            println!("dumped {} input hashes to {path}", l.len());
        }
    }
    let mut input_sets: BTreeMap<String, HashSet<u64>> = BTreeMap::new();
    for k in &known {
        if let Some(f) = &k.inputs_file {
            let txt = std::fs::read_to_string(format!("{VERIF}/{f}")).unwrap_or_else(|e| machinery(&format!("known-findings input list {f}: {e}")));
            input_sets.insert(f.clone(), txt.lines().filter_map(|l| u64::from_str_radix(l.trim(), 16).ok()).collect());
        }
    }
    for (sig, (n, v)) in &stats.violations {
        let key = sig_key(sig);
        if let Some(k) = known.iter().find(|k| glob_match(&k.sig_pattern, &key)) {
            if let Some(f) = &k.inputs_file {
                // identified input by input: every failing input of this class must be listed
                let set = &input_sets[f];
                let fresh: Vec<&Violation> = stats.by_input.iter().filter(|((s, h), _)| s == sig && !set.contains(h)).map(|(_, v)| v).collect();
                let listed = stats.by_input.keys().filter(|(s, h)| s == sig && set.contains(h)).count() as u64;
                if listed > 0 {
                    *known_hits.entry(format!("{} :: {}", k.sig_pattern, k.text)).or_insert(0) += listed;
                }
                if let Some(first) = fresh.first() {
                    new_violations += 1;
                    let path = format!("{}/replays/{}-{:016x}.json", out_root(), rep.property, hash64(&(sig, "new-input")));
                    let body = json!({"property": rep.property, "sig": sig, "count": fresh.len(), "what": first.what, "case": first.case, "note": "this input is not in the list of inputs covered by the known finding"});
                    std::fs::write(&path, serde_json::to_string_pretty(&body).unwrap()).unwrap_or_else(|e| machinery(&format!("cannot write {path}: {e}")));
                    println!("VIOLATION property={} replay={}", rep.property, path);
                    println!("  sig: {sig}  ({} inputs not covered by the known finding)  {}", fresh.len(), first.what);
                    vio_list.push(json!({"sig": sig, "count": fresh.len(), "replay": path, "what": first.what, "note": "inputs not listed under the known finding"}));
                } else {
                    vio_list.push(json!({"sig": sig, "count": n, "known": k.sig_pattern, "what": v.what}));
                }
                continue;
            }
            *known_hits.entry(format!("{} :: {}", k.sig_pattern, k.text)).or_insert(0) += n;
            vio_list.push(json!({"sig": sig, "count": n, "known": k.sig_pattern, "what": v.what}));
            continue;
        }
        new_violations += 1;
        let path = format!("{}/replays/{}-{:016x}.json", out_root(), rep.property, hash64(&sig));
        let body = json!({"property": rep.property, "sig": sig, "count": n, "what": v.what, "case": v.case});
        std::fs::write(&path, serde_json::to_string_pretty(&body).unwrap()).unwrap_or_else(|e| machinery(&format!("cannot write {path}: {e}")));
        println!("VIOLATION property={} replay={}", rep.property, path);
        println!("  sig: {sig}  ({n} cases)  {}", v.what);
        vio_list.push(json!({"sig": sig, "count": n, "replay": path, "what": v.what}));
    }
    for (k, n) in &known_hits {
        println!("KNOWN-FINDING: property={} {} ({} cases)", rep.property, k, n);
    }
    let wall = rep.start.elapsed().as_secs_f64();
    let worst: BTreeMap<String, Value> = stats.worst.iter().map(|(k, (r, at))| (k.clone(), json!({"ratio": r, "at": at}))).collect();
    let mut coverage = json!({
        "evaluations": stats.evaluations,
        "distinct_nontrivial": stats.nontrivial.len(),
        "rule": rep.rule,
        "samples": stats.samples,
        "states": stats.states.len().max(1),
        "transitions": stats.transitions.max(stats.evaluations),
        "traces_validated_against_impl": stats.transitions.max(stats.evaluations),
        "distinct_outcomes": stats.outcomes.len(),
        "max_depth": stats.max_depth,
        "exhaustive": rep.exhaustive && !stats.distinct_capped_affects_exhaustive(),
        "distinct_counting_capped": stats.distinct_capped,
        "caps": rep.caps,
        "counters": stats.counters,
        "worst_observed_error_ratio": worst,
        "violation_classes": vio_list,
    });
    if let (Some(c), Some(e)) = (coverage.as_object_mut(), rep.extra.as_object()) {
        for (k, v) in e {
            c.insert(k.clone(), v.clone());
        }
    }
    let mut assumptions = rep.assumptions.clone();
    if let Ok(note) = std::env::var("VERIF_CHECKED_RUN") {
        assumptions.push(note);
    }
    let ev = json!({
        "property_id": rep.property,
        "tier": if rep.mode == Mode::Quick { "quick" } else { "thorough" },
        "seed": rep.seed,
        "level": "model_checking",
        "coverage": coverage,
        "assumptions": assumptions,
        "wall_s": wall,
        "violations": new_violations,
        "known_findings_hit": known_hits.len(),
    });
    let path = format!("{}/evidence/{}.json", out_root(), rep.property);
    std::fs::write(&path, serde_json::to_string_pretty(&ev).unwrap()).unwrap_or_else(|e| machinery(&format!("cannot write {path}: {e}")));
    println!(
        "{} {:?}: evaluations={} states={} distinct_nontrivial={} outcomes={} violations={} known={} wall={:.1}s",
        rep.property,
        rep.mode,
        stats.evaluations,
        stats.states.len(),
        stats.nontrivial.len(),
        stats.outcomes.len(),
        new_violations,
        known_hits.len(),
        wall
    );
    if new_violations > 0 {
        1
    } else {
        0
    }
}

impl Stats {
    fn distinct_capped_affects_exhaustive(&self) -> bool {
        false
    }
}

pub fn read_replay(path: &str) -> Value {
    let txt = std::fs::read_to_string(path).unwrap_or_else(|e| machinery(&format!("cannot read {path}: {e}")));
    serde_json::from_str(&txt).unwrap_or_else(|e| machinery(&format!("bad replay file {path}: {e}")))
}

#[cfg(test)]
mod tests {
    use super::*;
    #[test]
    fn globs() {
        assert!(glob_match("sphj0_*_neg_*", "sphj0_Dual<f64>_neg_order1"));
        assert!(!glob_match("sphj0_*_neg_*", "sphj1_Dual<f64>_neg_order1"));
        assert!(glob_match("abc", "abc"));
        assert!(glob_match("a*", "abc"));
        assert!(glob_match("*c", "abc"));
    }
}
