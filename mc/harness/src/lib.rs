//! Depth-1 case execution shared by the property binaries: run one operation on the real type,
//! run it in the reference algebra, compare every part, record statistics and violations.

use explore::{guarded, hash64, Stats, Violation};
use refmodel::{Bits, Exact, Jet, DD};
use serde_json::{json, Value};
use subject::*;

pub mod bfs;
pub mod grids;
pub use bfs::*;
pub use grids::*;

#[derive(Clone, Debug)]
pub struct Case<F> {
    pub op: Op,
    pub args: Vec<Parts<F>>,
}

pub fn op_to_json(op: Op) -> Value {
    use Op::*;
    match op {
        Log(b) => json!({"name": "Log", "f": b}),
        Powi(n) => json!({"name": "Powi", "i": n}),
        Powf(p) => json!({"name": "Powf", "f": p, "bits": format!("{:016x}", p.to_bits())}),
        Sum(k) => json!({"name": "Sum", "i": k}),
        Product(k) => json!({"name": "Product", "i": k}),
        AddAF(s) => json!({"name": "AddAF", "f": s}),
        SubAF(s) => json!({"name": "SubAF", "f": s}),
        MulAF(s) => json!({"name": "MulAF", "f": s}),
        DivAF(s) => json!({"name": "DivAF", "f": s}),
        AddF(s) => json!({"name": "AddF", "f": s}),
        SubF(s) => json!({"name": "SubF", "f": s}),
        MulF(s) => json!({"name": "MulF", "f": s}),
        DivF(s) => json!({"name": "DivF", "f": s}),
        other => json!({"name": format!("{other:?}")}),
    }
}

pub fn op_from_json(v: &Value) -> Op {
    use Op::*;
    let name = v["name"].as_str().unwrap_or_else(|| explore::machinery("replay: op without name"));
    let f = || {
        if let Some(b) = v["bits"].as_str() {
            f64::from_bits(u64::from_str_radix(b, 16).unwrap())
        } else {
            v["f"].as_f64().unwrap()
        }
    };
    match name {
        "Log" => Log(f()),
        "Powi" => Powi(v["i"].as_i64().unwrap() as i32),
        "Powf" => Powf(f()),
        "Sum" => Sum(v["i"].as_u64().unwrap() as usize),
        "Product" => Product(v["i"].as_u64().unwrap() as usize),
        "AddAF" => AddAF(f()),
        "SubAF" => SubAF(f()),
        "MulAF" => MulAF(f()),
        "DivAF" => DivAF(f()),
        "AddF" => AddF(f()),
        "SubF" => SubF(f()),
        "MulF" => MulF(f()),
        "DivF" => DivF(f()),
        _ => {
            for op in ALL_SIMPLE_OPS {
                if format!("{op:?}") == name {
                    return *op;
                }
            }
            explore::machinery(&format!("replay: unknown op {name}"))
        }
    }
}

pub const ALL_SIMPLE_OPS: &[Op] = &[
    Op::Recip, Op::Sqrt, Op::Cbrt, Op::Exp, Op::Exp2, Op::ExpM1, Op::Ln, Op::Log2, Op::Log10, Op::Ln1p, Op::Sin, Op::Cos,
    Op::SinCosS, Op::SinCosC, Op::Tan, Op::Asin, Op::Acos, Op::Atan, Op::Sinh, Op::Cosh, Op::Tanh, Op::Asinh, Op::Acosh,
    Op::Atanh, Op::SphJ0, Op::SphJ1, Op::SphJ2, Op::Abs, Op::Signum, Op::Neg, Op::Inv, Op::Add, Op::Sub, Op::Mul, Op::Div,
    Op::Atan2, Op::AbsSub, Op::Powd, Op::MulAdd, Op::BesselJ0, Op::BesselJ1, Op::BesselJ2, Op::AddA, Op::SubA, Op::MulA,
    Op::DivA, Op::AddRef, Op::SubRef, Op::MulRef, Op::DivRef,
];

pub fn parts_to_json<F: Flt>(p: &Parts<F>) -> Value {
    json!({
        "bits": p.vals.iter().map(|v| format!("{:016x}", v.bits())).collect::<Vec<_>>(),
        "vals": p.vals.iter().map(|v| v.to64()).collect::<Vec<_>>(),
        "present": p.present,
    })
}

pub fn parts_from_json<F: Flt>(v: &Value) -> Parts<F> {
    let vals = v["bits"].as_array().unwrap().iter().map(|b| F::from_bits64(u64::from_str_radix(b.as_str().unwrap(), 16).unwrap())).collect();
    let present = v["present"].as_array().unwrap().iter().map(|b| b.as_bool().unwrap()).collect();
    Parts { vals, present }
}

pub fn case_to_json<F: Flt>(l: &Layout, d: Dims, c: &Case<F>) -> Value {
    json!({
        "type": l.type_name,
        "float": F::NAME,
        "dims": [d.m, d.n],
        "op": op_to_json(c.op),
        "slots": l.slots.iter().map(|s| s.name.clone()).collect::<Vec<_>>(),
        "args": c.args.iter().map(parts_to_json).collect::<Vec<_>>(),
    })
}

/// input class of a real part for signatures: sign and magnitude bucket relative to the float width
pub fn re_class_f(x: f64, eps: f64) -> String {
    let sign = if x.is_nan() {
        "re=nan"
    } else if x == 0.0 {
        "re=0"
    } else if x < 0.0 {
        "re<0"
    } else {
        "re>0"
    };
    let mag = if x == 0.0 || x.is_nan() {
        ""
    } else if x.abs() < eps {
        "~tiny"
    } else if x.abs() < 1e-3 {
        "~small"
    } else if x.abs() > 1e3 {
        "~large"
    } else {
        ""
    };
    format!("{sign}{mag}")
}

/// short class name of a type for signatures: outer constructor chain without dims
pub fn type_class(l: &Layout) -> String {
    l.type_name.clone()
}

fn key_of<F: Flt>(l: &Layout, c: &Case<F>) -> u64 {
    let mut v: Vec<u64> = vec![hash64(&l.type_name), hash64(&format!("{:?}", c.op))];
    for a in &c.args {
        v.extend(a.bits());
        v.extend(a.present.iter().map(|b| *b as u64));
    }
    hash64(&v)
}

fn nontrivial_operands<F: Flt>(l: &Layout, c: &Case<F>) -> bool {
    c.args.iter().any(|a| {
        (0..l.nslots()).any(|i| {
            l.slot_degree(i) > 0 && {
                let v = a.alpha(l, i).to64();
                v != 0.0 && v != 1.0
            }
        })
    })
}

fn result_nontrivial<F: Flt>(l: &Layout, r: &Parts<F>) -> bool {
    (0..l.nslots()).any(|i| l.slot_degree(i) > 0 && r.alpha(l, i).to64() != 0.0)
}

pub struct TolCfg<'a> {
    pub property: &'a str,
    /// multiply every bound by this factor (2 for programs, DESIGN 2.5)
    pub slack: f64,
    /// add the defining-expression bound for composite functions
    pub composite_rule: bool,
    /// extra absolute-scale bound per derivative order (cylindrical Bessel): kappa_k * u * sum|N^k|
    pub abs_kappa: Option<&'a [f64]>,
}

/// the outcome of comparing one implementation result with the reference
pub struct Cmp {
    pub ok: bool,
    pub worst_slot: usize,
    pub worst_ratio: f64,
    pub got: f64,
    pub want: f64,
    pub tol: f64,
}

pub fn compare_tol<F: Flt>(l: &Layout, got: &Parts<F>, want: &Val, extra: Option<&Jet<DD>>, slack: f64) -> Cmp {
    let mut cmp = Cmp { ok: true, worst_slot: 0, worst_ratio: 0.0, got: 0.0, want: 0.0, tol: 0.0 };
    // programs (slack > 1): the propagated bound is first order in the rounding errors; where
    // the first-order bound vanishes (a part that is exactly zero mathematically but is reached
    // through non-zero intermediate errors) the second-order terms (sum of the bounds)^2 remain
    let second_order = if slack > 1.0 {
        let es: f64 = want.e.c.iter().map(|c| c.to_f64()).sum();
        4.0 * es * es
    } else {
        0.0
    };
    for (i, s) in l.slots.iter().enumerate() {
        let m0 = s.monos[0];
        let w = *want.v.get(m0);
        // symmetry consistency of the reference (machinery self-check)
        for m in &s.monos[1..] {
            let w2 = *want.v.get(*m);
            let d = w.sub_dd(w2).abs_dd().to_f64();
            if d > 1e-25 * (w.abs_dd().to_f64() + 1e-300) && d > 1e-300 {
                panic!("MACHINERY: reference lost the symmetry of slot {} ({} vs {})", s.name, w, w2);
            }
        }
        let mut tol = want.e.get(m0).to_f64();
        if let Some(x) = extra {
            // a defining-expression bound that is not finite (0/0 at a removable singularity,
            // overflow of an intermediate power) grants nothing: the primitive bound applies
            let ex = x.get(m0).to_f64();
            if ex.is_finite() {
                tol += ex;
            }
        }
        tol = tol * slack + 1e-24 * w.abs_dd().to_f64() + 4096.0 * F::TINY + second_order;
        let g = got.alpha(l, i).to64();
        let diff = DD::f(g).sub_dd(w).abs_dd().to_f64();
        let ok = diff <= tol; // false for NaN
        let ratio = if diff == 0.0 { 0.0 } else if tol > 0.0 { diff / tol } else { f64::INFINITY };
        let ratio = if ratio.is_nan() { f64::INFINITY } else { ratio };
        if ratio > cmp.worst_ratio || (!ok && cmp.ok) {
            cmp.worst_ratio = ratio;
            cmp.worst_slot = i;
            cmp.got = g;
            cmp.want = w.to_f64();
            cmp.tol = tol;
        }
        if !ok {
            cmp.ok = false;
        }
    }
    cmp
}

/// Run one tolerance-checked case.  `exec` executes the operation on the real values.
pub fn run_tol<F: Flt, D: Subject<F>>(
    d: Dims,
    l: &Layout,
    case: &Case<F>,
    cfg: &TolCfg,
    exec: &dyn Fn(Op, &[D]) -> D,
    st: &mut Stats,
) -> bool {
    st.evaluations += 1;
    st.transitions += 1;
    let key = key_of(l, case);
    st.state(key);
    let args: Vec<D> = case.args.iter().map(|p| D::build(d, p)).collect();
    let re0 = case.args[0].vals[0].to64();
    let res = guarded(|| exec(case.op, &args).parts(d));
    let got = match res {
        Ok(p) => p,
        Err(msg) => {
            st.violation(Violation {
                sig: format!("{} {} {} panic", case.op.name(), type_class(l), re_class_f(re0, 2.0 * F::U)),
                case: case_to_json(l, d, case),
                what: format!("panicked: {msg}"),
            });
            return false;
        }
    };
    st.outcome(hash64(&got.bits()));
    let nontriv = nontrivial_operands(l, case) && result_nontrivial(l, &got);
    if nontriv {
        st.nontrivial(key);
    }
    let vals: Vec<Val> = case.args.iter().map(|p| Val::exact(p.to_jet::<DD>(l))).collect();
    let want = apply_ref(case.op, &vals, F::U);
    let mut extra = if cfg.composite_rule { defining_bound(case.op, &vals, F::U) } else { None };
    if let Some(ks) = cfg.abs_kappa {
        // absolute scale: kappa_k * u * (sum_k |N|^k)_p  with k the slot degree
        let n = vals[0].v.abs().nil();
        let ones: Vec<DD> = (0..=l.order + 1).map(|_| DD::ONE).collect();
        let s = n.apply(&ones[..=l.order]);
        let mut b = Jet::zero(&l.shape);
        for (i, m) in l.shape.monos.iter().enumerate() {
            let k = m.count_ones() as usize;
            let kap = ks[k.min(ks.len() - 1)];
            b.c[i] = s.c[i].mul_f(kap * F::U);
        }
        b.c[0] = DD::f(ks[0] * F::U);
        extra = Some(match extra {
            Some(e) => e.add(&b),
            None => b,
        });
    }
    let cmp = compare_tol(l, &got, &want, extra.as_ref(), cfg.slack);
    let opname = case.op.name();
    st.ratio(&opname, cmp.worst_ratio, || format!("{} slot {} x={:e}", l.type_name, l.slots[cmp.worst_slot].name, re0));
    if nontriv {
        st.sample(|| json!({"case": case_to_json(l, d, case), "result": parts_to_json(&got)}));
    }
    if !cmp.ok {
        let deg = l.slot_degree(cmp.worst_slot);
        st.violation(Violation {
            sig: format!(
                "{} {} {} order{}{}",
                opname,
                type_class(l),
                re_class_f(re0, 2.0 * F::U),
                deg,
                if cmp.got.is_finite() { "" } else { " nonfinite" }
            ),
            case: case_to_json(l, d, case),
            what: format!(
                "slot {} got {:e} want {:e} tol {:e} (ratio {:.3e})",
                l.slots[cmp.worst_slot].name, cmp.got, cmp.want, cmp.tol, cmp.worst_ratio
            ),
        });
    }
    cmp.ok
}

/// Run one exact case (C02/C07/C08): the implementation must equal the exact rational value in
/// every part, provided no rounding can occur (bit-budget check); returns None if skipped.
pub fn run_exact<F: Flt, D: Subject<F>>(
    d: Dims,
    l: &Layout,
    case: &Case<F>,
    exec: &dyn Fn(Op, &[D]) -> D,
    st: &mut Stats,
) -> Option<bool> {
    // bit budget: can rounding occur?
    let bj: Vec<Jet<Bits>> = case.args.iter().map(|p| p.to_jet::<Bits>(l)).collect();
    let bres = apply_exact(case.op, &bj, &tay_bits);
    let width = bres.c.iter().map(|b| b.width()).max().unwrap_or(0);
    if width > F::PREC - 3 {
        st.count("skipped_rounding_possible", 1);
        return None;
    }
    st.evaluations += 1;
    st.transitions += 1;
    let key = key_of(l, case);
    st.state(key);
    let args: Vec<D> = case.args.iter().map(|p| D::build(d, p)).collect();
    let re0 = case.args[0].vals[0].to64();
    let got = match guarded(|| exec(case.op, &args).parts(d)) {
        Ok(p) => p,
        Err(msg) => {
            st.violation(Violation {
                sig: format!("{} {} {} panic", case.op.name(), type_class(l), re_class_f(re0, 2.0 * F::U)),
                case: case_to_json(l, d, case),
                what: format!("panicked: {msg}"),
            });
            return Some(false);
        }
    };
    st.outcome(hash64(&got.bits()));
    let nontriv = nontrivial_operands(l, case) && result_nontrivial(l, &got);
    if nontriv {
        st.nontrivial(key);
    }
    let ej: Vec<Jet<Exact>> = case.args.iter().map(|p| p.to_jet::<Exact>(l)).collect();
    let want = apply_exact(case.op, &ej, &tay_exact);
    if nontriv {
        st.sample(|| json!({"case": case_to_json(l, d, case), "result": parts_to_json(&got)}));
    }
    for (i, s) in l.slots.iter().enumerate() {
        let w = want.get(s.monos[0]);
        for m in &s.monos[1..] {
            if want.get(*m) != w {
                panic!("MACHINERY: exact reference lost the symmetry of slot {}", s.name);
            }
        }
        let g = got.alpha(l, i).to64();
        if !w.eq_float(g) {
            st.violation(Violation {
                sig: format!("{} {} exact order{}", case.op.name(), type_class(l), l.slot_degree(i)),
                case: case_to_json(l, d, case),
                what: format!("slot {} got {:e} want {} (= {:e}) exactly", s.name, g, w, w.to_f64()),
            });
            return Some(false);
        }
    }
    Some(true)
}

pub fn exec_generic<F: Flt, D: Subject<F>>(op: Op, a: &[D]) -> D {
    apply_impl::<F, D>(op, a)
}

// ------------------------------------------------------------------------------------------------
// replay by type name

pub struct FindType<'a, R: TypedAction> {
    pub name: &'a str,
    pub dims: Dims,
    pub action: &'a mut R,
    pub found: bool,
}

pub trait TypedAction {
    fn act<F: Flt, D: Subject<F>>(&mut self, d: Dims, l: &Layout);
}

impl<'a, R: TypedAction> Visitor for FindType<'a, R> {
    fn visit<F: Flt, D: Subject<F>>(&mut self, d: Dims) {
        if self.found || d != self.dims || D::type_name(d) != self.name {
            return;
        }
        self.found = true;
        let l = D::layout(d);
        self.action.act::<F, D>(d, &l);
    }
}

pub fn replay_dims(case: &Value) -> Dims {
    Dims { m: case["dims"][0].as_u64().unwrap() as usize, n: case["dims"][1].as_u64().unwrap() as usize }
}

// ------------------------------------------------------------------------------------------------
// sweeps

pub struct SweepInfo {
    pub cases: usize,
    pub full_grid: bool,
    pub space: Vec<usize>,
}

/// Enumerate every assignment of derivative parts (full tensor grid, `degree+1` values per part,
/// every presence pattern) of all operands of `op` at the given real parts and check each case
/// with the tolerance oracle.  If the grid exceeds `budget` it is walked with an odd stride and
/// reported as reduced.
pub fn sweep_tol<F: Flt, D: Subject<F>>(
    d: Dims,
    l: &Layout,
    op: Op,
    re: &[f64],
    budget: usize,
    cfg: &TolCfg,
    exec: &(dyn Fn(Op, &[D]) -> D + Sync),
    st: &mut Stats,
) -> SweepInfo {
    let ar = op.arity();
    assert_eq!(re.len(), ar);
    let nv: Vec<usize> = (0..l.nslots()).map(|i| if i == 0 { 1 } else { slot_poly_degree(l, i) + 1 }).collect();
    let spaces: Vec<OperandSpace> = (0..ar).map(|k| OperandSpace::new(l, &[re[k]], nv.clone(), true, k * l.nslots(), false)).collect();
    let total: usize = spaces.iter().map(|s| s.total).fold(1usize, |a, b| a.saturating_mul(b));
    let stride = if total > budget { ((total + budget - 1) / budget) | 1 } else { 1 };
    let n = total / stride + if total % stride != 0 { 1 } else { 0 };
    let spaces_ref = &spaces;
    explore::par_for(n, st, |i, st| {
        let mut idx = i * stride;
        let mut args = Vec::with_capacity(ar);
        for s in spaces_ref.iter() {
            args.push(s.get::<F>(idx % s.total));
            idx /= s.total;
        }
        run_tol::<F, D>(d, l, &Case { op, args }, cfg, exec, st);
    });
    SweepInfo { cases: n, full_grid: stride == 1, space: spaces.iter().map(|s| s.total).collect() }
}

/// generic replay entry for tolerance-checked depth-1 cases
pub struct ReplayTol<'a> {
    pub case: &'a Value,
    pub cfg: TolCfg<'a>,
    pub ok: Option<bool>,
}
impl<'a> TypedAction for ReplayTol<'a> {
    fn act<F: Flt, D: Subject<F>>(&mut self, d: Dims, l: &Layout) {
        let op = op_from_json(&self.case["op"]);
        let args: Vec<Parts<F>> = self.case["args"].as_array().unwrap().iter().map(parts_from_json::<F>).collect();
        let case = Case { op, args };
        let mut st = Stats::default();
        let r1 = run_tol::<F, D>(d, l, &case, &self.cfg, &exec_generic::<F, D>, &mut st);
        let mut st2 = Stats::default();
        let r2 = run_tol::<F, D>(d, l, &case, &self.cfg, &exec_generic::<F, D>, &mut st2);
        if r1 != r2 || st.outcomes != st2.outcomes {
            explore::machinery("replay is not deterministic");
        }
        for (sig, (_, v)) in &st.violations {
            println!("replay: {sig}: {}", v.what);
        }
        self.ok = Some(r1);
    }
}

pub fn run_replay_tol(prop: &str, path: &str, cfg: TolCfg, universe: &dyn Fn(&mut FindType<ReplayTol>)) -> ! {
    let v = explore::read_replay(path);
    let case = &v["case"];
    let mut act = ReplayTol { case, cfg, ok: None };
    let name = case["type"].as_str().unwrap().to_string();
    let mut f = FindType { name: &name, dims: replay_dims(case), action: &mut act, found: false };
    universe(&mut f);
    if !f.found {
        explore::machinery(&format!("replay: type {name} not in the universe"));
    }
    if act.ok == Some(true) {
        println!("replay: property holds on this case");
        std::process::exit(0)
    }
    println!("VIOLATION property={prop} replay={path}");
    std::process::exit(1)
}

/// Many sweeps over one type in a single parallel loop (avoids per-sweep thread start-up).
pub fn sweep_many<F: Flt, D: Subject<F>>(
    d: Dims,
    l: &Layout,
    jobs: &[(Op, Vec<f64>)],
    budget: usize,
    cfg: &TolCfg,
    exec: &(dyn Fn(Op, &[D]) -> D + Sync),
    st: &mut Stats,
) -> SweepInfo {
    let nv: Vec<usize> = (0..l.nslots()).map(|i| if i == 0 { 1 } else { slot_poly_degree(l, i) + 1 }).collect();
    struct Unit {
        op: Op,
        spaces: Vec<OperandSpace>,
        stride: usize,
        start: usize,
    }
    let mut units = Vec::new();
    let mut total_cases = 0usize;
    let mut full = true;
    let mut space = Vec::new();
    for (op, re) in jobs {
        let ar = op.arity();
        assert_eq!(re.len(), ar);
        let spaces: Vec<OperandSpace> = (0..ar).map(|k| OperandSpace::new(l, &[re[k]], nv.clone(), true, k * l.nslots(), false)).collect();
        let total: usize = spaces.iter().map(|s| s.total).fold(1usize, |a, b| a.saturating_mul(b));
        let stride = if total > budget { ((total + budget - 1) / budget) | 1 } else { 1 };
        let n = total / stride + if total % stride != 0 { 1 } else { 0 };
        full &= stride == 1;
        if space.is_empty() {
            space = spaces.iter().map(|s| s.total).collect();
        }
        units.push(Unit { op: *op, spaces, stride, start: total_cases });
        total_cases += n;
    }
    let units_ref = &units;
    explore::par_for(total_cases, st, |i, st| {
        let k = match units_ref.binary_search_by(|u| u.start.cmp(&i)) {
            Ok(k) => k,
            Err(k) => k - 1,
        };
        let u = &units_ref[k];
        let mut idx = (i - u.start) * u.stride;
        let mut args = Vec::with_capacity(u.spaces.len());
        for s in u.spaces.iter() {
            args.push(s.get::<F>(idx % s.total));
            idx /= s.total;
        }
        run_tol::<F, D>(d, l, &Case { op: u.op, args }, cfg, exec, st);
    });
    SweepInfo { cases: total_cases, full_grid: full, space }
}

/// A few operand-part assignments at a real part: `k` generic ones (every part non-zero, pairwise
/// distinct, different per assignment) followed by the unit seeding used by the drivers
/// (first-order parts 1, higher parts zero / absent).
pub fn few_assignments<F: Flt>(l: &Layout, re: f64, k: usize, salt: usize) -> Vec<Parts<F>> {
    let mut out = Vec::new();
    for a in 0..k {
        let vals: Vec<F> = (0..l.nslots())
            .map(|i| F::from64(if i == 0 { re } else { part_value(i + salt, 1 + (i + a) % 3) }))
            .collect();
        out.push(Parts { vals, present: vec![true; l.ngroups()] });
    }
    // unit seeding
    let vals: Vec<F> = (0..l.nslots()).map(|i| F::from64(if i == 0 { re } else if l.slot_degree(i) == 1 { 1.0 } else { 0.0 })).collect();
    let mut present = vec![false; l.ngroups()];
    for (i, s) in l.slots.iter().enumerate() {
        if l.slot_degree(i) == 1 {
            for g in &s.groups {
                present[*g] = true;
            }
        }
    }
    out.push(Parts { vals, present });
    out
}

/// Run a list of unary jobs (op, real part) with `k` generic assignments + unit seeding each.
pub fn sweep_points<F: Flt, D: Subject<F>>(
    d: Dims,
    l: &Layout,
    jobs: &[(Op, f64)],
    k: usize,
    cfg: &TolCfg,
    exec: &(dyn Fn(Op, &[D]) -> D + Sync),
    st: &mut Stats,
) -> usize {
    let per = k + 1;
    explore::par_for(jobs.len(), st, |i, st| {
        let (op, re) = jobs[i];
        for p in few_assignments::<F>(l, re, k, 0) {
            run_tol::<F, D>(d, l, &Case { op, args: vec![p] }, cfg, exec, st);
        }
    });
    jobs.len() * per
}
