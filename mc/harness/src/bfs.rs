//! Breadth-first exploration of straight-line programs, executed in lock-step on the real type
//! and in the reference algebra (DESIGN 2.3).

use crate::{compare_tol, parts_to_json};
use explore::{guarded, hash64, par_for, Stats, Violation};
use refmodel::{Scalar, DD};
use serde_json::{json, Value};
use std::collections::HashSet;
use std::sync::Mutex;
use subject::*;

pub struct ProgState<F: Flt, D> {
    pub regs: Vec<D>,
    pub parts: Vec<Parts<F>>,
    pub refs: Vec<Val>,
    pub steps: Vec<Step>,
}

impl<F: Flt, D: Clone> Clone for ProgState<F, D> {
    fn clone(&self) -> Self {
        ProgState { regs: self.regs.clone(), parts: self.parts.clone(), refs: self.refs.clone(), steps: self.steps.clone() }
    }
}

pub struct Alphabet {
    pub unary: Vec<Op>,
    pub binary: Vec<Op>,
    pub ternary: Vec<Op>,
    /// Sum(k)/Product(k) over all k-subsets-with-order of registers
    pub nary: Vec<Op>,
}

impl Alphabet {
    pub fn size(&self) -> usize {
        self.unary.len() + self.binary.len() + self.ternary.len() + self.nary.len()
    }
    /// all steps applicable with `n` registers; if `must_use_newest`, only those reading register n-1
    pub fn steps(&self, n: usize, must_use_newest: bool) -> Vec<Step> {
        let mut out = Vec::new();
        let newest = n - 1;
        for op in &self.unary {
            for i in 0..n {
                if !must_use_newest || i == newest {
                    out.push(Step { op: *op, args: vec![i] });
                }
            }
        }
        for op in &self.binary {
            for i in 0..n {
                for j in 0..n {
                    if !must_use_newest || i == newest || j == newest {
                        out.push(Step { op: *op, args: vec![i, j] });
                    }
                }
            }
        }
        let mut tern = |op: Op, out: &mut Vec<Step>| {
            for i in 0..n {
                for j in 0..n {
                    for k in 0..n {
                        if !must_use_newest || i == newest || j == newest || k == newest {
                            out.push(Step { op, args: vec![i, j, k] });
                        }
                    }
                }
            }
        };
        for op in &self.ternary {
            tern(*op, &mut out);
        }
        for op in &self.nary {
            match op.arity() {
                2 => {
                    for i in 0..n {
                        for j in 0..n {
                            if !must_use_newest || i == newest || j == newest {
                                out.push(Step { op: *op, args: vec![i, j] });
                            }
                        }
                    }
                }
                3 => tern(*op, &mut out),
                _ => {}
            }
        }
        out
    }
}

pub struct BfsCfg<'a> {
    pub max_len: usize,
    pub margin: f64,
    pub alphabet: &'a Alphabet,
    /// alphabet of the last level (may be the same)
    pub last_alphabet: &'a Alphabet,
    pub state_cap: usize,
}

pub struct BfsInfo {
    pub states_per_level: Vec<usize>,
    pub programs_checked: u64,
    pub pruned: u64,
    pub capped: bool,
}

pub fn prog_json<F: Flt>(l: &Layout, d: Dims, inputs: &[Parts<F>], steps: &[Step]) -> Value {
    let p = Program { n_inputs: inputs.len(), steps: steps.to_vec() };
    json!({
        "type": l.type_name, "float": F::NAME, "dims": [d.m, d.n],
        "program": p.describe(),
        "steps": steps.iter().map(|s| json!({"op": crate::op_to_json(s.op), "args": s.args})).collect::<Vec<_>>(),
        "inputs": inputs.iter().map(parts_to_json).collect::<Vec<_>>(),
    })
}

/// Explore all programs up to cfg.max_len from the given inputs.  `on_value` is called for every
/// program value that passed the reference comparison (used by C04/C06 for differential checks).
pub fn bfs_programs<F: Flt, D: Subject<F>>(
    d: Dims,
    l: &Layout,
    inputs: &[Parts<F>],
    cfg: &BfsCfg,
    st: &mut Stats,
) -> BfsInfo {
    let regs: Vec<D> = inputs.iter().map(|p| D::build(d, p)).collect();
    let refs: Vec<Val> = inputs.iter().map(|p| Val::exact(p.to_jet::<DD>(l))).collect();
    let init = ProgState { regs, parts: inputs.to_vec(), refs, steps: vec![] };
    let mut frontier = vec![init];
    let mut seen: HashSet<u64> = HashSet::new();
    let mut info = BfsInfo { states_per_level: vec![1], programs_checked: 0, pruned: 0, capped: false };
    let checked = Mutex::new((0u64, 0u64));
    for level in 1..=cfg.max_len {
        let last = level == cfg.max_len;
        let alpha = if last { cfg.last_alphabet } else { cfg.alphabet };
        let n_regs = inputs.len() + level - 1;
        let steps = alpha.steps(n_regs, last && level > 1);
        let fr = &frontier;
        let steps_ref = &steps;
        let next = Mutex::new(Vec::<ProgState<F, D>>::new());
        let total = fr.len() * steps.len();
        par_for(total, st, |i, st| {
            let s = &fr[i / steps_ref.len()];
            let step = &steps_ref[i % steps_ref.len()];
            let a: Vec<Val> = step.args.iter().map(|k| s.refs[*k].clone()).collect();
            let re: Vec<f64> = a.iter().map(|v| v.v.re().to_f64()).collect();
            if !in_domain_margin(step.op, &re, cfg.margin) {
                checked.lock().unwrap().1 += 1;
                return;
            }
            // the closed forms of the spherical Bessel functions divide by x^3 and their quotient rule
            // squares that denominator: sixth powers of the argument must be representable too
            if matches!(step.op, Op::SphJ0 | Op::SphJ1 | Op::SphJ2) {
                let lim = if F::PREC < 53 { 1e6 } else { 1e50 };
                if a[0].v.c.iter().any(|c| c.hi.abs() > lim) {
                    checked.lock().unwrap().1 += 1;
                    return;
                }
            }
            let want = apply_ref(step.op, &a, F::U);
            // the rounding model assumes no overflow / underflow of intermediates: keep every
            // non-zero reference coefficient well inside the range of F (cubes must be representable)
            let (lo, hi) = if F::PREC < 53 { (1e-12, 1e12) } else { (1e-100, 1e100) };
            if !want.v.c.iter().all(|c| c.is_finite() && (c.is_zero() || (c.hi.abs() < hi && c.hi.abs() > lo))) || !want.e.c.iter().all(|c| c.is_finite()) {
                checked.lock().unwrap().1 += 1;
                return;
            }
            // composite interface functions: add the bound of the defining expression evaluated
            // on the (inexact) operands
            let want = match defining_bound(step.op, &a, F::U) {
                Some(x) if x.c.iter().all(|c| c.is_finite()) => Val { v: want.v, e: want.e.add(&x) },
                _ => want,
            };
            st.evaluations += 1;
            st.transitions += 1;
            let args: Vec<D> = step.args.iter().map(|k| s.regs[*k].clone()).collect();
            let mut steps2 = s.steps.clone();
            steps2.push(step.clone());
            let got = match guarded(|| {
                let r = apply_impl::<F, D>(step.op, &args);
                let p = r.parts(d);
                (r, p)
            }) {
                Ok(x) => x,
                Err(m) => {
                    st.violation(Violation {
                        sig: format!("prog {} {} panic", steps2.iter().map(|s| s.op.name()).collect::<Vec<_>>().join(">"), l.type_name),
                        case: prog_json(l, d, &s.parts[..inputs.len()], &steps2),
                        what: format!("panicked: {m}"),
                    });
                    return;
                }
            };
            let cmp = compare_tol(l, &got.1, &want, None, 2.0);
            st.max_depth = st.max_depth.max(level as u64);
            st.ratio(&format!("L{level}"), cmp.worst_ratio, || format!("{} {}", l.type_name, Program { n_inputs: inputs.len(), steps: steps2.clone() }.describe()));
            if !cmp.ok {
                st.violation(Violation {
                    sig: format!(
                        "prog {} {} order{}{}",
                        steps2.iter().map(|s| s.op.name()).collect::<Vec<_>>().join(">"),
                        l.type_name,
                        l.slot_degree(cmp.worst_slot),
                        if cmp.got.is_finite() { "" } else { " nonfinite" }
                    ),
                    case: prog_json(l, d, &s.parts[..inputs.len()], &steps2),
                    what: format!(
                        "{}: slot {} got {:e} want {:e} tol {:e} (ratio {:.3e})",
                        Program { n_inputs: inputs.len(), steps: steps2.clone() }.describe(),
                        l.slots[cmp.worst_slot].name,
                        cmp.got,
                        cmp.want,
                        cmp.tol,
                        cmp.worst_ratio
                    ),
                });
                return;
            }
            let key = hash64(&(level, got.1.bits(), got.1.present.clone(), s.parts.iter().map(|p| p.bits()).collect::<Vec<_>>()));
            st.state(key);
            st.outcome(hash64(&got.1.bits()));
            if steps2.len() > 1 || got.1.vals.iter().skip(1).any(|v| v.to64() != 0.0) {
                st.nontrivial(key);
            }
            if steps2.len() == cfg.max_len {
                st.sample(|| prog_json(l, d, &s.parts[..inputs.len()], &steps2));
            }
            checked.lock().unwrap().0 += 1;
            if !last {
                let mut ns = s.clone();
                ns.regs.push(got.0);
                ns.parts.push(got.1);
                ns.refs.push(want);
                ns.steps = steps2;
                next.lock().unwrap().push(ns);
            }
        });
        if last {
            break;
        }
        let mut nx = next.into_inner().unwrap();
        // deterministic order: by program text
        nx.sort_by_cached_key(|s| Program { n_inputs: inputs.len(), steps: s.steps.clone() }.describe());
        // canonical-state de-duplication: the multiset of register values
        let mut fresh = Vec::new();
        for s in nx {
            let mut regs: Vec<(Vec<u64>, Vec<bool>)> = s.parts.iter().map(|p| (p.bits(), p.present.clone())).collect();
            regs.sort();
            if seen.insert(hash64(&(level, regs))) {
                fresh.push(s);
            }
        }
        if fresh.len() > cfg.state_cap {
            fresh.truncate(cfg.state_cap);
            info.capped = true;
        }
        info.states_per_level.push(fresh.len());
        frontier = fresh;
    }
    let c = checked.into_inner().unwrap();
    info.programs_checked = c.0;
    info.pruned = c.1;
    info
}
