//! The grids of DESIGN 2.4.

/// real-part grids per domain (all exactly representable in f32)
pub const REAL: &[f64] = &[-9.25, -2.5, -1.0, -0.625, -0.125, 0.125, 0.3125, 0.75, 1.0, 1.25, 2.0, 3.75, 9.25];
pub const POS: &[f64] = &[0.0625, 0.3125, 0.875, 1.0, 1.25, 2.5, 17.0, 1000.0];
pub const UNIT: &[f64] = &[-0.875, -0.5, -0.125, 0.25, 0.5, 0.875];
pub const GT1: &[f64] = &[1.125, 1.5, 3.0, 10.0];
pub const GTM1: &[f64] = &[-0.875, -0.5, -0.125, 0.125, 0.75, 2.0, 9.25];

/// pairwise distinct dyadic direction constants with mixed signs
pub const C: &[f64] = &[
    0.75, -1.25, 2.5, -0.375, 1.625, -2.75, 0.4375, 3.25, -0.875, 1.375, -1.875, 2.125, -0.5625, 0.8125, -3.5, 1.1875,
    -2.375, 0.6875, 2.875, -1.0625, 1.9375, -0.3125, 3.75, -2.0625, 0.9375, -1.4375, 2.625, -0.6875, 1.5625, -3.125, 0.5625,
    -1.6875, 2.3125, -0.8125, 3.375, -2.5625, 1.0625, -1.3125, 2.4375, -0.4375, 1.8125, -2.9375, 0.3125, 3.0625, -1.5625,
    1.3125, -2.1875, 0.1875, 2.6875, -1.9375, 1.4375, -0.9375, 3.625, -2.4375, 0.0625, 1.6875,
];

/// value number `j` (0-based) of part `i`: {0, c_i, -c_i/2 - 1/4, 2 c_i + 1/8}
pub fn part_value(i: usize, j: usize) -> f64 {
    let c = C[i % C.len()] + (i / C.len()) as f64 * 4.0;
    match j {
        0 => 0.0,
        1 => c,
        2 => -c / 2.0 - 0.25,
        3 => 2.0 * c + 0.125,
        _ => c * (j as f64) - 0.0625,
    }
}

/// mixed-radix decoding: digit k of `idx` with the given radices
pub fn mixed_radix(mut idx: usize, radices: &[usize], out: &mut [usize]) {
    for (k, r) in radices.iter().enumerate() {
        out[k] = idx % r;
        idx /= r;
    }
}

pub fn product(radices: &[usize]) -> usize {
    radices.iter().product()
}

use subject::{Flt, Layout, Parts};

/// largest number of pairwise disjoint monomials of the slot whose union is an allowed monomial:
/// the degree of a result part as a polynomial in this slot's value
pub fn slot_poly_degree(l: &Layout, i: usize) -> usize {
    let ms = &l.slots[i].monos;
    let n = ms.len().min(12);
    let mut best = 1;
    for sub in 1u32..(1 << n) {
        let mut acc = 0u32;
        let mut ok = true;
        for k in 0..n {
            if sub & (1 << k) != 0 {
                if acc & ms[k] != 0 {
                    ok = false;
                    break;
                }
                acc |= ms[k];
            }
        }
        if ok && l.shape.index.contains_key(&acc) {
            best = best.max(sub.count_ones() as usize);
        }
    }
    best
}

/// All operands of a type over a grid: presence patterns x per-slot value indices.
/// Slot 0 (the real part proper) ranges over `re_grid`; slot i > 0 over `nv[i]` values
/// `value(i, j)`; slots of absent groups are fixed (value index 0).
pub struct OperandSpace {
    pub re_grid: Vec<f64>,
    pub nv: Vec<usize>,
    /// (presence pattern, radices, cumulative start)
    pub patterns: Vec<(Vec<bool>, Vec<usize>, usize)>,
    pub total: usize,
    pub salt: usize,
    pub small: bool,
}

impl OperandSpace {
    pub fn new(l: &Layout, re_grid: &[f64], nv: Vec<usize>, with_absent: bool, salt: usize, small: bool) -> Self {
        let g = l.ngroups();
        let npat = if with_absent { 1usize << g } else { 1 };
        let mut patterns = Vec::new();
        let mut total = 0usize;
        for p in 0..npat {
            // pattern 0 = all present
            let present: Vec<bool> = (0..g).map(|k| p & (1 << k) == 0).collect();
            let mut rad = Vec::with_capacity(l.nslots());
            for (i, s) in l.slots.iter().enumerate() {
                let here = s.groups.iter().all(|k| present[*k]);
                rad.push(if i == 0 { re_grid.len() } else if here { nv[i] } else { 1 });
            }
            let size: usize = rad.iter().product();
            patterns.push((present, rad, total));
            total = total.checked_add(size).expect("MACHINERY: operand space overflow");
        }
        OperandSpace { re_grid: re_grid.to_vec(), nv, patterns, total, salt, small }
    }
    pub fn value(&self, slot: usize, j: usize) -> f64 {
        if self.small {
            small_value(slot + self.salt, j)
        } else {
            part_value(slot + self.salt, j)
        }
    }
    pub fn get<F: Flt>(&self, mut idx: usize) -> Parts<F> {
        let k = match self.patterns.binary_search_by(|p| p.2.cmp(&idx)) {
            Ok(k) => k,
            Err(k) => k - 1,
        };
        let (present, rad, start) = &self.patterns[k];
        idx -= start;
        let mut vals = Vec::with_capacity(rad.len());
        for (i, r) in rad.iter().enumerate() {
            let j = idx % r;
            idx /= r;
            vals.push(F::from64(if i == 0 { self.re_grid[j] } else { self.value(i, j) }));
        }
        Parts { vals, present: present.clone() }
    }
}

/// small dyadics for exact checks: c_i = (-1)^i (i+1)/2
pub fn small_value(i: usize, j: usize) -> f64 {
    let c = (if i % 2 == 0 { 1.0 } else { -1.0 }) * ((i + 1) as f64) / 2.0;
    match j {
        0 => 0.0,
        1 => c,
        2 => -c / 2.0 - 0.25,
        3 => 2.0 * c + 0.125,
        _ => c * (j as f64) - 0.0625,
    }
}
