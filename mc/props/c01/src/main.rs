//! C01 — elementary functions carry exact derivatives on every dual number type.
//! functions x all types x domain grid x full tensor grid of derivative parts; reference algebra
//! over double-double with ODE-generated Taylor coefficients; tolerance kappa * u * M.

use explore::*;
use harness::*;
use serde_json::{json, Value};
use std::time::Instant;
use subject::*;

const PROP: &str = "C01";

/// arguments of large and of small magnitude (all exactly representable in f32) at which the
/// function value and every contributing term are still far inside the range of the float width:
/// premature overflow (e.g. cosh from sqrt(sinh^2 + 1)), amplified argument errors (exp2 as
/// exp(x ln 2)) and cancellation next to zero (ln_1p as ln(1 + x)) only show here
fn range_points(op: Op, prec: i32) -> Vec<f64> {
    use Op::*;
    let wide = prec == 53;
    // not dyadic: 1 + x must not be exact; small enough for cancellation to show, large enough for
    // the fifth power of 1/x to stay inside f32
    let tiny = [1.2345678e-6, -3.3e-7];
    let mut g: Vec<f64> = Vec::new();
    match op {
        Exp | ExpM1 => {
            g.extend([70.0, -70.0]);
            if wide {
                g.extend([690.0, -690.0]);
            }
        }
        Exp2 => {
            g.extend([100.0, -100.0]);
            if wide {
                g.extend([1000.0, -1000.0]);
            }
        }
        Sinh | Cosh => {
            g.extend([50.0, -70.0]);
            if wide {
                g.extend([400.0, -690.0]);
            }
        }
        Tanh => {
            g.extend([20.0, -50.0]);
            if wide {
                g.extend([400.0]);
            }
        }
        // large arguments, and arguments next to the zeros of sin and cos (relative accuracy there)
        Sin | Cos | SinCosS | SinCosC | Tan => g.extend([100.0, -1000.0, 1.5707, -4.7123, 3.1415, -6.2831]),
        Atan | Asinh | Cbrt => g.extend([1048576.0, -1048576.0]),
        Recip => g.extend([1048576.0, -1048576.0]),
        Sqrt | Ln | Log(_) | Log2 | Log10 => g.extend([1048576.0, 1.2345678e-6]),
        Ln1p => g.extend([1048576.0, -0.99]),
        Acosh => g.extend([1048576.0, 1.01]),
        // close to the end points of the domain, with a margin of 1e-2: the derivative factors are
        // functions of 1 - x^2, whose rounding is amplified by 1/(1 - x^2) - at a margin of 1e-4 the
        // current formulas are off by 10 times the tolerance, and the obvious reformulation
        // (1 - x)(1 + x) loses the inner derivative parts of nested numbers next to 0 instead (tried
        // in a scratch worktree); C01 keeps 'a fixed margin away from singularities', this is it
        Asin | Acos | Atanh => g.extend([0.99, -0.99]),
        _ => {}
    }
    if matches!(op, Exp | Exp2 | ExpM1 | Sin | Cos | SinCosS | SinCosC | Tan | Atan | Sinh | Cosh | Tanh | Asinh | Ln1p | Asin | Acos | Atanh | Cbrt | Recip) {
        g.extend(tiny);
    }
    g
}

fn jobs(prec: i32) -> Vec<(Op, Vec<Vec<f64>>)> {
    let un = |g: &[f64]| g.iter().map(|x| vec![*x]).collect::<Vec<_>>();
    let mut v: Vec<(Op, Vec<Vec<f64>>)> = jobs_base();
    for (op, g) in v.iter_mut() {
        g.extend(un(&range_points(*op, prec)));
    }
    // product and quotient at large and small magnitudes whose Taylor coefficients (up to 1/b^4) are
    // still representable: a reformulated rule may overflow or underflow in an intermediate
    let big: Vec<Vec<f64>> = if prec == 53 {
        vec![vec![3e59, 1e60], vec![-2e-60, 7e-61], vec![5e29, 3e-30], vec![-1.5e-30, 2e30], vec![0.75, -2.5]]
    } else {
        vec![vec![3e7, 1e8], vec![-2e-8, 7e-9], vec![5e5, 3e-6], vec![-1.5e-6, 2e6], vec![0.75, -2.5]]
    };
    v.push((Op::Mul, big.clone()));
    v.push((Op::Div, big));
    v
}

fn jobs_base() -> Vec<(Op, Vec<Vec<f64>>)> {
    let un = |g: &[f64]| g.iter().map(|x| vec![*x]).collect::<Vec<_>>();
    let mut v: Vec<(Op, Vec<Vec<f64>>)> = Vec::new();
    for op in [Op::Exp, Op::Exp2, Op::ExpM1, Op::Sin, Op::Cos, Op::SinCosS, Op::SinCosC, Op::Tan, Op::Atan, Op::Sinh, Op::Cosh, Op::Tanh, Op::Asinh, Op::Cbrt, Op::Recip, Op::Abs, Op::Signum] {
        let mut g = un(REAL);
        if !matches!(op, Op::Cbrt | Op::Recip | Op::Abs | Op::Signum) {
            // exactly zero: many closed-form coefficients vanish there (zero real part, non-zero
            // inner derivative parts on nested types)
            g.push(vec![0.0]);
        }
        v.push((op, g));
    }
    // bases 2, 10 and e are the ones an implementation may special-case
    for op in [Op::Sqrt, Op::Ln, Op::Log(0.5), Op::Log(2.5), Op::Log(10.0), Op::Log(2.0), Op::Log(std::f64::consts::E), Op::Log2, Op::Log10] {
        v.push((op, un(POS)));
    }
    let mut g = un(GTM1);
    g.push(vec![0.0]);
    v.push((Op::Ln1p, g));
    for op in [Op::Asin, Op::Acos, Op::Atanh] {
        let mut g = un(UNIT);
        g.push(vec![0.0]);
        v.push((op, g));
    }
    v.push((Op::Acosh, un(GT1)));
    // atan2(y, x): two points per quadrant
    let mut pts = Vec::new();
    for (sy, sx) in [(1.0, 1.0), (1.0, -1.0), (-1.0, 1.0), (-1.0, -1.0)] {
        pts.push(vec![0.75 * sy, 2.0 * sx]);
        pts.push(vec![2.0 * sy, 0.75 * sx]);
    }
    // the four half-axes (regular points of atan2; the negative y axis is where a branch test without abs() fails)
    pts.push(vec![1.5, 0.0]);
    pts.push(vec![-1.5, 0.0]);
    pts.push(vec![0.0, 1.25]);
    pts.push(vec![0.0, -1.25]);
    v.push((Op::Atan2, pts));
    v.push((Op::AbsSub, vec![vec![2.0, -0.625], vec![-0.625, 2.0], vec![-1.0, -2.5], vec![0.75, 0.75]]));
    v
}

fn cfg() -> TolCfg<'static> {
    TolCfg { property: PROP, slack: 1.0, composite_rule: true, abs_kappa: None }
}

struct Enumerate<'a> {
    mode: Mode,
    stats: &'a mut Stats,
    axes: Vec<Value>,
    reduced: u64,
}

impl<'a> Visitor for Enumerate<'a> {
    fn visit<F: Flt, D: Subject<F>>(&mut self, d: Dims) {
        let l = D::layout(d);
        let budget: usize = if self.mode == Mode::Quick { if l.nslots() > 10 { 600 } else { 3_000 } } else { 60_000 };
        let c = cfg();
        let mut list: Vec<(Op, Vec<f64>)> = Vec::new();
        for (op, pts) in jobs(F::PREC) {
            for re in pts {
                list.push((op, re));
            }
        }
        // development aid (not used by ./check): restrict the sweep to one function family, e.g. to try
        // new points of one function on the thorough universe; run it with VERIF_OUT pointing elsewhere
        if let Ok(only) = std::env::var("VERIF_DEV_ONLY_OP") {
            list.retain(|(op, _)| format!("{op:?}").to_lowercase().contains(&only.to_lowercase()));
        }
        let info = sweep_many::<F, D>(d, &l, &list, budget, &c, &exec_generic::<F, D>, self.stats);
        let (cases, full) = (info.cases, info.full_grid);
        if !full {
            self.reduced += 1;
        }
        self.axes.push(json!({"type": l.type_name, "slots": l.nslots(), "order": l.order, "cases": cases, "full_tensor_grid": full}));
    }
}

/// Deep range: operands X = s Y with s = 2^33 (single) / 2^257 (double precision) and Y of order one
/// in every part.  The homogeneous operations satisfy f(s Y) = s^k f(Y) in every part, and every
/// part of the result is a normal number although intermediate powers of the real part (x^4, 1/x^4)
/// overflow or are subnormal: an implementation that forms such a power explicitly returns 0, inf or
/// NaN in a part.  Oracle: s^k x (reference value of f(Y)), relative tolerance 1e-4 (a subnormal
/// coefficient carries 19 bits in single precision); only gross errors are reported here.
struct DeepRange<'a> {
    stats: &'a mut Stats,
    cases: usize,
}
impl<'a> Visitor for DeepRange<'a> {
    fn visit<F: Flt, D: Subject<F>>(&mut self, d: Dims) {
        let l = D::layout(d);
        let e: i32 = if F::PREC == 53 { 257 } else { 33 };
        let s = 2f64.powi(e);
        let jobs: [(Op, i32); 5] = [(Op::Recip, -1), (Op::Powi(2), 2), (Op::Powi(3), 3), (Op::Mul, 2), (Op::Div, 0)];
        for (op, k) in jobs {
            // the value s^k (0.75 .. 2)^k must stay inside the range with a margin
            if (k * e).abs() > if F::PREC == 53 { 900 } else { 100 } {
                continue;
            }
            let res: [f64; 2] = [0.75, -1.25];
            let ys: Vec<Parts<F>> = (0..op.arity()).map(|a| few_assignments::<F>(&l, res[a], 1, a * l.nslots()).remove(0)).collect();
            let xs: Vec<Parts<F>> = ys.iter().map(|p| Parts { vals: p.vals.iter().map(|v| F::from64(v.to64() * s)).collect(), present: p.present.clone() }).collect();
            let vals: Vec<Val> = ys.iter().map(|p| Val::exact(p.to_jet::<refmodel::DD>(&l))).collect();
            let want = apply_ref(op, &vals, F::U);
            let args: Vec<D> = xs.iter().map(|p| D::build(d, p)).collect();
            self.stats.evaluations += 1;
            self.stats.transitions += 1;
            self.cases += 1;
            let key = hash64(&("deep", l.type_name.as_str(), format!("{op:?}")));
            self.stats.state(key);
            self.stats.nontrivial(key);
            let case = || json!({"type": l.type_name, "dims": [d.m, d.n], "op": op_to_json(op), "scale": format!("2^{e}"), "args_before_scaling": ys.iter().map(parts_to_json).collect::<Vec<_>>()});
            let got = match guarded(|| exec_generic::<F, D>(op, &args).parts(d)) {
                Ok(g) => g,
                Err(m) => {
                    self.stats.violation(Violation { sig: format!("deep-range {} {} panic", op.name(), l.type_name), case: case(), what: format!("panicked: {m}") });
                    continue;
                }
            };
            let sk = 2f64.powi(k * e);
            for (i, slot) in l.slots.iter().enumerate() {
                let w = want.v.get(slot.monos[0]).to_f64() * sk;
                if !w.is_finite() || w.abs() < (if F::PREC == 53 { f64::MIN_POSITIVE } else { f32::MIN_POSITIVE as f64 }) * 2f64.powi(30) {
                    continue;
                }
                let g = got.alpha(&l, i).to64();
                if !((g - w).abs() <= 1e-4 * w.abs()) {
                    self.stats.violation(Violation {
                        sig: format!("deep-range {} {} order{}", op.name(), l.type_name, l.slot_degree(i)),
                        case: case(),
                        what: format!("{} of operands scaled by 2^{e}: slot {} is {g:e}, expected {w:e} (= 2^{} x the value at the unscaled operands)", op.name(), slot.name, k * e),
                    });
                    break;
                }
            }
        }
    }
}

fn run_call<F: Flt, D: Subject<F>>(op: Op, x: f64) -> Result<Vec<u64>, String> {
    let d = Dims::NONE;
    let l = D::layout(d);
    let p = few_assignments::<F>(&l, F::from64(x).to64(), 1, 0).remove(0);
    let a = D::build(d, &p);
    guarded(|| exec_generic::<F, D>(op, &[a]).parts(d).bits())
}

/// History independence (sequences of two calls): the result of a call must not depend on the call
/// made before it on the same thread - another float width, another base / exponent of the same
/// function, another argument.  For every function family and every ordered pair (c1, c2) of calls
/// from {f32, f64} x {parameter variants} x {2 points}, c2 is evaluated right after c1; all results
/// for the same c2 must be identical bit for bit (differential oracle, no reference values).
fn history_independence(st: &mut Stats) -> (usize, usize) {
    use num_dual::{Dual3_32, Dual3_64};
    let mut fams: Vec<(std::mem::Discriminant<Op>, Vec<(Op, f64)>)> = Vec::new();
    let mut all = jobs_base();
    for (op, x) in [(Op::Powf(2.5), 0.75), (Op::Powf(0.5), 0.75), (Op::Powf(2.5), 2.0), (Op::Powi(3), 0.75), (Op::Powi(-2), 0.75), (Op::Powi(3), -2.5)] {
        all.push((op, vec![vec![x]]));
    }
    for (op, pts) in all {
        if op.arity() != 1 {
            continue;
        }
        let k = std::mem::discriminant(&op);
        if !fams.iter().any(|(d, _)| *d == k) {
            fams.push((k, Vec::new()));
        }
        let f = fams.iter_mut().find(|(d, _)| *d == k).unwrap();
        for p in pts.iter().take(2) {
            f.1.push((op, p[0]));
        }
    }
    let eval = |wide: bool, op: Op, x: f64| if wide { run_call::<f64, Dual3_64>(op, x) } else { run_call::<f32, Dual3_32>(op, x) };
    let (mut pairs, mut calls) = (0usize, 0usize);
    for (_, cs) in &fams {
        let mut alphabet: Vec<(bool, Op, f64)> = Vec::new();
        for &(op, x) in cs {
            alphabet.push((true, op, x));
            alphabet.push((false, op, x));
        }
        calls += alphabet.len();
        for &(w2, op2, x2) in &alphabet {
            let mut first: Option<(Vec<u64>, (bool, Op, f64))> = None;
            for &(w1, op1, x1) in &alphabet {
                let _ = eval(w1, op1, x1);
                let r = match eval(w2, op2, x2) {
                    Ok(r) => r,
                    Err(_) => continue,
                };
                pairs += 1;
                st.evaluations += 2;
                st.transitions += 2;
                st.state(hash64(&("history", format!("{op1:?}{op2:?}"), w1, w2, x1.to_bits(), x2.to_bits())));
                match &first {
                    None => first = Some((r, (w1, op1, x1))),
                    Some((r0, c0)) => {
                        if *r0 != r {
                            let wn = |w: bool| if w { "f64" } else { "f32" };
                            st.violation(Violation {
                                sig: format!("history {} Dual3<{}>", op2.name(), wn(w2)),
                                case: json!({"call": {"op": op_to_json(op2), "float": wn(w2), "x": x2}, "after_a": {"op": op_to_json(c0.1), "float": wn(c0.0), "x": c0.2}, "after_b": {"op": op_to_json(op1), "float": wn(w1), "x": x1}}),
                                what: format!("{}({x2}) on Dual3<{}> gives different bits after {}({}) on {} than after {}({x1}) on {}: the result depends on the previous call", op2.name(), wn(w2), c0.1.name(), c0.2, wn(c0.0), op1.name(), wn(w1)),
                            });
                            break;
                        }
                    }
                }
            }
        }
    }
    (calls, pairs)
}

fn main() {
    quiet_panics();
    let cli = cli();
    if let Some(path) = &cli.replay {
        run_replay_tol(PROP, path, cfg(), &|f| { whole_universe(Tier::Thorough, f); larger_vector_types(f) });
    }
    let start = Instant::now();
    let mut stats = Stats::default();
    let mut e = Enumerate { mode: cli.mode, stats: &mut stats, axes: vec![], reduced: 0 };
    let tier = if cli.mode == Mode::Quick { Tier::Quick } else { Tier::Thorough };
    whole_universe(tier, &mut e);
    if tier == Tier::Quick {
        // (the thorough universe has sizes up to 6 already)
        larger_vector_types(&mut e);
    }
    let axes = std::mem::take(&mut e.axes);
    let reduced = e.reduced;
    let (hist_calls, hist_pairs) = history_independence(&mut stats);
    let deep_cases = {
        let mut dr = DeepRange { stats: &mut stats, cases: 0 };
        scalar_types(&mut dr);
        static_vector_types(Tier::Quick, &mut dr);
        nested_types(Tier::Quick, &mut dr);
        dr.cases
    };
    let kap: Vec<Value> = jobs(53).iter().map(|(op, _)| json!({"op": op.name(), "kappa": kappa(*op)})).collect();
    let rep = Report {
        property: PROP,
        mode: cli.mode,
        seed: cli.seed,
        start,
        rule: "every interface function x every type of the universe (f32 and f64, static, dynamic, nested) x every point of the function's domain grid x every presence pattern x the full tensor grid of derivative-part values (degree+1 values per part incl. 0, pairwise distinct non-parallel directions); non-trivial = an operand part is neither 0 nor 1 and the result has a non-zero derivative part; distinct by (type, op, operand bits, presence); plus history independence: for every function family every ordered pair of calls from {f32, f64} x parameter variants x 2 points, the second call's bits must not depend on the first; plus deep range: recip, powi(2), powi(3), product and quotient of operands scaled by 2^33 / 2^257 in every part against s^k times the reference at the unscaled operands (relative 1e-4)".into(),
        assumptions: vec![
            "reference: refmodel double-double algebra, audited against mpmath (audit/audit.py)".into(),
            "tolerance per part: kappa_op * u * sum of |Taylor coefficient| * |operand parts| products (DESIGN 2.5); composite functions (tan, tanh, sph_j*) additionally get the propagated bound of their defining expression".into(),
            "real parts are grid points with a fixed margin from singularities, not all floats".into(),
        ],
        extra: json!({"axes": axes, "sweeps_with_reduced_grid": reduced, "deep_range_cases": deep_cases, "history_calls": hist_calls, "history_pairs": hist_pairs, "kappa": kap, "oracle": "reference algebra over double-double, ODE-generated Taylor coefficients"}),
        exhaustive: true,
        caps: vec![],
    };
    std::process::exit(finish(rep, stats));
}
