//! C08 — all syntactic forms of an operation give the same result.
//! Every generated operator / conversion implementation of every (concrete) type is compared with
//! the canonical form `&a op &b` with scalars lifted by `from`.

use explore::*;
use harness::*;
use nalgebra::{Const, Dyn};
use num_dual::*;
use num_traits::{FloatConst, FromPrimitive, Inv, One, Zero};
use serde_json::json;
use std::time::Instant;
use subject::*;

const PROP: &str = "C08";

fn operands<F: Flt>(l: &Layout, salt: usize) -> Vec<Parts<F>> {
    let mut out = Vec::new();
    for (k, re) in [-3.0, -0.5, 2.0, 0.0, 1.0].iter().enumerate() {
        let g = l.ngroups();
        for pat in 0..(1usize << g) {
            let present: Vec<bool> = (0..g).map(|i| pat & (1 << i) == 0).collect();
            let vals: Vec<F> = (0..l.nslots()).map(|i| F::from64(if i == 0 { *re } else { small_value(i + salt + k, 1 + (i + k) % 2) })).collect();
            out.push(Parts { vals, present });
        }
    }
    out
}

/// numerical equality of all parts (signed zeros identified, absent = zero)
fn same<F: Flt>(l: &Layout, a: &Parts<F>, b: &Parts<F>) -> Option<usize> {
    (0..l.nslots()).find(|&i| {
        let (x, y) = (a.alpha(l, i), b.alpha(l, i));
        !(x == y || (x.is_nan() && y.is_nan()))
    })
}

/// equality to rounding: |x - y| <= k u max(|x|,|y|)
fn close<F: Flt>(l: &Layout, a: &Parts<F>, b: &Parts<F>, k: f64) -> Option<usize> {
    (0..l.nslots()).find(|&i| {
        let (x, y) = (a.alpha(l, i).to64(), b.alpha(l, i).to64());
        !(x == y || (x.is_nan() && y.is_nan()) || (x - y).abs() <= k * F::U * x.abs().max(y.abs()))
    })
}

macro_rules! forms {
    ($st:expr, $ty:ty, $f:ty, $d:expr) => {{
        type D = $ty;
        type F = $f;
        let d: Dims = $d;
        let l = <D as Subject<F>>::layout(d);
        let l = &l;
        let tn = l.type_name.clone();
        let asv = operands::<F>(l, 0);
        let bsv = operands::<F>(l, l.nslots());
        let mk = |p: &Parts<F>| <D as Subject<F>>::build(d, p);
        let pt = |x: &D| <D as Subject<F>>::parts(x, d);
        let mut report = |st: &mut Stats, form: &str, slot: usize, got: &Parts<F>, want: &Parts<F>, ops: Vec<&Parts<F>>| {
            st.violation(Violation {
                sig: format!("form {form} {tn}"),
                case: json!({"type": tn, "form": form, "operands": ops.iter().map(|p| parts_to_json(*p)).collect::<Vec<_>>()}),
                what: format!("{form}: slot {} is {:e}, canonical form gives {:e}", l.slots[slot].name, got.alpha(l, slot).to64(), want.alpha(l, slot).to64()),
            });
        };
        for pa in &asv {
            let a: D = mk(pa);
            // ---------------- unary forms
            {
                let canon = pt(&(-&a));
                let got = pt(&(-a.clone()));
                $st.evaluations += 2;
                if let Some(i) = same(l, &got, &canon) {
                    report($st, "neg owned", i, &got, &canon, vec![pa]);
                }
                let want_neg = pt(&(&D::zero() - &a));
                if let Some(i) = same(l, &canon, &want_neg) {
                    report($st, "neg vs 0 - a", i, &canon, &want_neg, vec![pa]);
                }
                if pa.vals[0] != 0.0 {
                // (1/0 is outside the domain of inv)
                let inv = pt(&Inv::inv(a.clone()));
                let rec = pt(&a.recip());
                let one_over = pt(&(&D::one() / &a));
                $st.evaluations += 2;
                if let Some(i) = same(l, &inv, &rec) {
                    report($st, "inv vs recip", i, &inv, &rec, vec![pa]);
                }
                if let Some(i) = close(l, &inv, &one_over, 16.0) {
                    report($st, "inv vs 1 / a", i, &inv, &one_over, vec![pa]);
                }
                }
            }
            // ---------------- scalar forms
            for s in [0.75 as F, -1.5, 4.0, 3.0] {
                let lifted: D = D::from(s);
                let checks: Vec<(&str, D, D, bool)> = vec![
                    ("a + f", a.clone() + s, &a + &lifted, true),
                    ("a - f", a.clone() - s, &a - &lifted, true),
                    ("a * f", a.clone() * s, &a * &lifted, true),
                    ("a / f", a.clone() / s, &a / &lifted, false),
                    ("a += f", { let mut r = a.clone(); r += s; r }, &a + &lifted, true),
                    ("a -= f", { let mut r = a.clone(); r -= s; r }, &a - &lifted, true),
                    ("a *= f", { let mut r = a.clone(); r *= s; r }, &a * &lifted, true),
                    ("a /= f", { let mut r = a.clone(); r /= s; r }, &a / &lifted, false),
                ];
                for (name, got, want, exact) in checks {
                    $st.evaluations += 1;
                    $st.transitions += 1;
                    let (g, w) = (pt(&got), pt(&want));
                    $st.state(hash64(&(tn.as_str(), name, pa.bits(), pa.present.clone(), (s as f64).to_bits())));
                    $st.nontrivial(hash64(&(tn.as_str(), name, pa.bits(), pa.present.clone(), (s as f64).to_bits())));
                    $st.outcome(hash64(&g.bits()));
                    let bad = if exact { same(l, &g, &w) } else { close(l, &g, &w, 16.0) };
                    if let Some(i) = bad {
                        report($st, name, i, &g, &w, vec![pa]);
                    }
                }
                // the owned and the compound-assignment form of the scalar division are the same
                // computation: bit-equal, whatever rounding a reformulation (x * (1/f)) would add
                {
                    $st.evaluations += 1;
                    let owned = pt(&(a.clone() / s));
                    let assigned = pt(&{ let mut r = a.clone(); r /= s; r });
                    if let Some(i) = same(l, &owned, &assigned) {
                        report($st, "a / f vs a /= f", i, &owned, &assigned, vec![pa]);
                    }
                }
                // lifting: From<F> is a constant
                let lp = pt(&lifted);
                if lp.vals[0] != s || (1..l.nslots()).any(|i| lp.alpha(l, i) != 0.0) {
                    report($st, "from(f) is not a constant", 0, &lp, &lp, vec![]);
                }
            }
            // ---------------- binary forms
            for pb in &bsv {
                let b: D = mk(pb);
                macro_rules! bin {
                    ($op:tt, $name:expr, $exactdiv:expr) => {{
                        let canon = pt(&(&a $op &b));
                        let forms: Vec<(String, D)> = vec![
                            (format!("a {} b", $name), a.clone() $op b.clone()),
                            (format!("a {} &b", $name), a.clone() $op &b),
                            (format!("&a {} b", $name), &a $op b.clone()),
                        ];
                        for (name, got) in forms {
                            $st.evaluations += 1;
                            $st.transitions += 1;
                            let g = pt(&got);
                            let key = hash64(&(tn.as_str(), name.as_str(), pa.bits(), pb.bits(), pa.present.clone(), pb.present.clone()));
                            $st.state(key);
                            $st.nontrivial(key);
                            $st.outcome(hash64(&g.bits()));
                            if let Some(i) = same(l, &g, &canon) {
                                report($st, &name, i, &g, &canon, vec![pa, pb]);
                            }
                        }
                        canon
                    }};
                }
                let add = bin!(+, "+", true);
                let sub = bin!(-, "-", true);
                let mul = bin!(*, "*", true);
                let div = bin!(/, "/", true);
                let assign: Vec<(&str, D, &Parts<F>)> = vec![
                    ("a += b", { let mut r = a.clone(); r += b.clone(); r }, &add),
                    ("a -= b", { let mut r = a.clone(); r -= b.clone(); r }, &sub),
                    ("a *= b", { let mut r = a.clone(); r *= b.clone(); r }, &mul),
                    ("a /= b", { let mut r = a.clone(); r /= b.clone(); r }, &div),
                ];
                for (name, got, want) in assign {
                    $st.evaluations += 1;
                    let g = pt(&got);
                    if let Some(i) = same(l, &g, want) {
                        report($st, name, i, &g, want, vec![pa, pb]);
                    }
                }
                // default mul_add and iterator forms
                let c: D = mk(&bsv[0]);
                let ma = pt(&a.mul_add(b.clone(), c.clone()));
                let want = pt(&(&(&a * &b) + &c));
                $st.evaluations += 1;
                if let Some(i) = same(l, &ma, &want) {
                    report($st, "mul_add", i, &ma, &want, vec![pa, pb]);
                }
                // addends of every real part, 0 included (a zero VALUE is not a zero NUMBER)
                for pc in bsv.iter().filter(|p| p.present.iter().all(|x| *x)) {
                    let c2: D = mk(pc);
                    let ma = pt(&a.mul_add(b.clone(), c2.clone()));
                    let want = pt(&(&(&a * &b) + &c2));
                    $st.evaluations += 1;
                    if let Some(i) = same(l, &ma, &want) {
                        report($st, "mul_add", i, &ma, &want, vec![pa, pb, pc]);
                    }
                }
                // up to 19 items (a, b, c repeated): summation schemes that treat long inputs differently
                let items: Vec<D> = (0..19).map(|k| [a.clone(), b.clone(), c.clone()][k % 3].clone()).collect();
                for n in [0usize, 1, 2, 3, 4, 5, 8, 9, 11, 16, 17, 19] {
                    let mut s = D::zero();
                    let mut p = D::one();
                    for x in &items[..n] {
                        s = &s + x;
                        p = &p * x;
                    }
                    let (s, p) = (pt(&s), pt(&p));
                    let forms: Vec<(&str, Parts<F>, &Parts<F>)> = vec![
                        ("sum owned", pt(&items[..n].iter().cloned().sum::<D>()), &s),
                        ("sum borrowed", pt(&items[..n].iter().sum::<D>()), &s),
                        ("product owned", pt(&items[..n].iter().cloned().product::<D>()), &p),
                        ("product borrowed", pt(&items[..n].iter().product::<D>()), &p),
                        // adaptors whose size hint has the lower bound 0 although they yield items
                        ("sum owned filter", pt(&items[..n].iter().cloned().filter(|_| true).sum::<D>()), &s),
                        ("sum borrowed filter", pt(&items[..n].iter().filter(|_| true).sum::<D>()), &s),
                        ("product owned filter", pt(&items[..n].iter().cloned().filter(|_| true).product::<D>()), &p),
                        ("sum owned flat_map", pt(&items[..n].iter().flat_map(|x| std::iter::once(x.clone())).sum::<D>()), &s),
                    ];
                    for (name, g, want) in forms {
                        $st.evaluations += 1;
                        if let Some(i) = same(l, &g, want) {
                            report($st, &format!("{name} n={n}"), i, &g, want, vec![pa, pb]);
                        }
                    }
                }
            }
        }
        // ---------------- constants and conversions
        // the 16 constants the crate implements must carry the float constant's bits; TAU, LOG10_2
        // and LOG2_10 are provided methods of num-traits (a quotient / product of other constants
        // evaluated in dual arithmetic), so they are held to 2 ulp
        let is_const = |name: &str, x: &D, v: F| {
            let p = pt(x);
            let re_ok = if matches!(name, "TAU" | "LOG10_2" | "LOG2_10") { ((p.vals[0] - v).abs() as f64) <= 4.0 * <F as Flt>::U * (v.abs() as f64) } else { p.vals[0].to_bits() == v.to_bits() };
            re_ok && (1..l.nslots()).all(|i| p.alpha(l, i) == 0.0)
        };
        let consts: Vec<(&str, D, F)> = vec![
            ("E", D::E(), F::E()),
            ("FRAC_1_PI", D::FRAC_1_PI(), F::FRAC_1_PI()),
            ("FRAC_1_SQRT_2", D::FRAC_1_SQRT_2(), F::FRAC_1_SQRT_2()),
            ("FRAC_2_PI", D::FRAC_2_PI(), F::FRAC_2_PI()),
            ("FRAC_2_SQRT_PI", D::FRAC_2_SQRT_PI(), F::FRAC_2_SQRT_PI()),
            ("FRAC_PI_2", D::FRAC_PI_2(), F::FRAC_PI_2()),
            ("FRAC_PI_3", D::FRAC_PI_3(), F::FRAC_PI_3()),
            ("FRAC_PI_4", D::FRAC_PI_4(), F::FRAC_PI_4()),
            ("FRAC_PI_6", D::FRAC_PI_6(), F::FRAC_PI_6()),
            ("FRAC_PI_8", D::FRAC_PI_8(), F::FRAC_PI_8()),
            ("LN_10", D::LN_10(), F::LN_10()),
            ("LN_2", D::LN_2(), F::LN_2()),
            ("LOG10_E", D::LOG10_E(), F::LOG10_E()),
            ("LOG2_E", D::LOG2_E(), F::LOG2_E()),
            ("PI", D::PI(), F::PI()),
            ("SQRT_2", D::SQRT_2(), F::SQRT_2()),
            ("TAU", D::TAU(), F::TAU()),
            ("LOG10_2", D::LOG10_2(), F::LOG10_2()),
            ("LOG2_10", D::LOG2_10(), F::LOG2_10()),
            ("zero", D::zero(), 0.0),
            ("one", D::one(), 1.0),
            // the in-place forms (provided methods of num-traits unless a type overrides them) on a
            // value whose parts are all present and non-zero
            ("set_zero", { let mut r = mk(&asv[0]); Zero::set_zero(&mut r); r }, 0.0),
            ("set_one", { let mut r = mk(&asv[0]); One::set_one(&mut r); r }, 1.0),
            ("set_zero (absent parts)", { let mut r = mk(asv.last().unwrap()); Zero::set_zero(&mut r); r }, 0.0),
            ("from_i8", D::from_i8(-3).unwrap(), -3.0),
            ("from_i16", D::from_i16(-300).unwrap(), -300.0),
            ("from_i32", D::from_i32(-70000).unwrap(), -70000.0),
            ("from_i64", D::from_i64(-5).unwrap(), -5.0),
            ("from_i128", D::from_i128(-6).unwrap(), -6.0),
            ("from_isize", D::from_isize(-7).unwrap(), -7.0),
            ("from_u8", D::from_u8(200).unwrap(), 200.0),
            ("from_u16", D::from_u16(60000).unwrap(), 60000.0),
            ("from_u32", D::from_u32(70000).unwrap(), 70000.0),
            ("from_u64", D::from_u64(9).unwrap(), 9.0),
            ("from_u128", D::from_u128(10).unwrap(), 10.0),
            ("from_usize", D::from_usize(11).unwrap(), 11.0),
            ("from_i128 beyond i64", D::from_i128(-(1i128 << 70)).unwrap(), -(2.0 as F).powi(70)),
            ("from_u128 beyond u64", D::from_u128(1u128 << 100).unwrap(), (2.0 as F).powi(100)),
            ("from_i64 min", D::from_i64(i64::MIN).unwrap(), -(2.0 as F).powi(63)),
            ("from_u64 max", D::from_u64(u64::MAX).unwrap(), (2.0 as F).powi(64)),
            // the extreme values of every integer type and values that need more than 24 / 53
            // significant bits: one rounding, to the float type of the number
            ("from_i8 min", D::from_i8(i8::MIN).unwrap(), i8::MIN as F),
            ("from_i16 min", D::from_i16(i16::MIN).unwrap(), i16::MIN as F),
            ("from_u16 max", D::from_u16(u16::MAX).unwrap(), u16::MAX as F),
            ("from_i32 min", D::from_i32(i32::MIN).unwrap(), i32::MIN as F),
            ("from_i32 max", D::from_i32(i32::MAX).unwrap(), i32::MAX as F),
            ("from_i32 2^24+1", D::from_i32(16777217).unwrap(), 16777217i32 as F),
            ("from_i32 -(2^24+1)", D::from_i32(-16777217).unwrap(), -16777217i32 as F),
            ("from_i32 123456789", D::from_i32(123456789).unwrap(), 123456789i32 as F),
            ("from_u32 max", D::from_u32(u32::MAX).unwrap(), u32::MAX as F),
            ("from_u32 2^24+3", D::from_u32(16777219).unwrap(), 16777219u32 as F),
            ("from_i64 2^53+1", D::from_i64((1i64 << 53) + 1).unwrap(), ((1i64 << 53) + 1) as F),
            ("from_i64 max", D::from_i64(i64::MAX).unwrap(), i64::MAX as F),
            ("from_i64 123456789012345678", D::from_i64(123456789012345678).unwrap(), 123456789012345678i64 as F),
            ("from_u64 2^53+3", D::from_u64((1u64 << 53) + 3).unwrap(), ((1u64 << 53) + 3) as F),
            ("from_isize -(2^24+1)", D::from_isize(-16777217).unwrap(), -16777217isize as F),
            ("from_usize 2^24+1", D::from_usize(16777217).unwrap(), 16777217usize as F),
            ("from_i128 2^24+1", D::from_i128(16777217).unwrap(), 16777217i128 as F),
            ("from_u128 2^53+1", D::from_u128((1u128 << 53) + 1).unwrap(), ((1u128 << 53) + 1) as F),
            ("from_f32", D::from_f32(0.375).unwrap(), 0.375),
            ("from_f64", D::from_f64(-2.125).unwrap(), -2.125),
            // values that are not representable in single precision: the conversion must round once,
            // to the float type of the number
            ("from_f64 0.1", D::from_f64(0.1).unwrap(), 0.1f64 as F),
            ("from_f64 pi", D::from_f64(std::f64::consts::PI).unwrap(), std::f64::consts::PI as F),
            ("from_f64 1e-300", D::from_f64(1e-300).unwrap(), 1e-300f64 as F),
            // beyond the range of single precision: the float conversion saturates to infinity, it is
            // not refused
            ("from_f64 1e300", D::from_f64(1e300).unwrap_or_else(D::zero), 1e300f64 as F),
            ("from_f64 MAX", D::from_f64(f64::MAX).unwrap_or_else(D::zero), f64::MAX as F),
            ("from_f64 -3.5e38", D::from_f64(-3.5e38).unwrap_or_else(D::zero), -3.5e38f64 as F),
            ("from_f64 16777217", D::from_f64(16777217.0).unwrap(), 16777217.0f64 as F),
            ("from_f32 0.1", D::from_f32(0.1).unwrap(), 0.1f32 as F),
        ];
        for (name, got, want) in consts {
            $st.evaluations += 1;
            $st.state(hash64(&(tn.as_str(), name)));
            if !is_const(name, &got, want) {
                let g = pt(&got);
                $st.violation(Violation {
                    sig: format!("constant {name} {tn}"),
                    case: json!({"type": tn, "constant": name}),
                    what: format!("{name}: real part {:e} (expected {:e}) or non-zero derivative parts {:?}", g.vals[0] as f64, want as f64, g.vals.iter().map(|v| *v as f64).collect::<Vec<_>>()),
                });
            }
        }
        $st.sample(|| json!({"type": tn, "forms": 16 + 2 + 4 + 8 + 3 + 16 + 1, "constants": 53, "operand": parts_to_json(&asv[asv.len() / 2])}));
    }};
}

fn run_all(st: &mut Stats, thorough: bool) {
    forms!(st, Dual64, f64, Dims::NONE);
    forms!(st, Dual32, f32, Dims::NONE);
    forms!(st, Dual2_64, f64, Dims::NONE);
    forms!(st, Dual2_32, f32, Dims::NONE);
    forms!(st, Dual3_64, f64, Dims::NONE);
    forms!(st, Dual3_32, f32, Dims::NONE);
    forms!(st, HyperDual64, f64, Dims::NONE);
    forms!(st, HyperDual32, f32, Dims::NONE);
    forms!(st, HyperHyperDual64, f64, Dims::NONE);
    forms!(st, HyperHyperDual32, f32, Dims::NONE);
    forms!(st, DualVec<f64, f64, Const<2>>, f64, Dims::n(2));
    forms!(st, DualVec<f32, f32, Const<2>>, f32, Dims::n(2));
    forms!(st, DualVec<f64, f64, Dyn>, f64, Dims::n(3));
    forms!(st, DualVec<f64, f64, Dyn>, f64, Dims::n(0));
    forms!(st, Dual2Vec<f64, f64, Const<2>>, f64, Dims::n(2));
    forms!(st, Dual2Vec<f64, f64, Dyn>, f64, Dims::n(2));
    forms!(st, HyperDualVec<f64, f64, Const<2>, Const<2>>, f64, Dims::mn(2, 2));
    forms!(st, HyperDualVec<f64, f64, Dyn, Dyn>, f64, Dims::mn(1, 2));
    forms!(st, Dual<Dual64, f64>, f64, Dims::NONE);
    forms!(st, DualVec<Dual64, f64, Const<2>>, f64, Dims::n(2));
    // nested second- and third-order types: the chain rules act on inner numbers there
    forms!(st, Dual3<Dual64, f64>, f64, Dims::NONE);
    forms!(st, Dual2<Dual64, f64>, f64, Dims::NONE);
    forms!(st, HyperHyperDual<Dual64, f64>, f64, Dims::NONE);
    forms!(st, Dual2Vec<Dual64, f64, Const<2>>, f64, Dims::n(2));
    if thorough {
        forms!(st, Dual2Vec<f32, f32, Const<2>>, f32, Dims::n(2));
        forms!(st, HyperDualVec<f32, f32, Dyn, Dyn>, f32, Dims::mn(2, 2));
        forms!(st, HyperDual<Dual64, f64>, f64, Dims::NONE);
        forms!(st, DualVec<f64, f64, Const<6>>, f64, Dims::n(6));
        forms!(st, Dual2Vec<f64, f64, Dyn>, f64, Dims::n(0));
    }
}

fn main() {
    quiet_panics();
    let cli = cli();
    let start = Instant::now();
    let mut stats = Stats::default();
    if let Err(m) = guarded(|| run_all(&mut stats, cli.mode == Mode::Thorough || cli.replay.is_some())) {
        stats.violation(Violation { sig: "form panic".into(), case: json!({}), what: format!("an operator form panicked: {m}") });
    }
    if let Some(path) = &cli.replay {
        let v = read_replay(path);
        let sig = v["sig"].as_str().unwrap_or("");
        if let Some((n, viol)) = stats.violations.get(sig) {
            println!("replay: {sig}: {} ({n} cases)", viol.what);
            println!("VIOLATION property={PROP} replay={path}");
            std::process::exit(1);
        }
        println!("replay: property holds on this case");
        std::process::exit(0);
    }
    let rep = Report {
        property: PROP,
        mode: cli.mode,
        seed: cli.seed,
        start,
        rule: "for every concrete type (scalar types over both widths, static and dynamic vector types incl. length 0, nested types): the 16 owned/borrowed forms of + - * /, 2 of neg, 4 dual and 8 scalar compound/plain operators, Inv, Sum/Product over owned and borrowed iterators of length 0..19, default mul_add, From<F>, the 14 FromPrimitive constructors, Zero, One (also set_zero / set_one), 19 FloatConst constants - each against the canonical form `&a op &b` with scalars lifted by from (scalars 0.75, -1.5, 4, 3; `a / f` and `a /= f` additionally bit-equal to each other), on dyadic operands x every presence pattern x 5 real parts (among them exactly 0 and exactly 1). Non-trivial = a form applied to operands with non-zero parts.".into(),
        assumptions: vec!["additive, forwarding and multiplicative-scalar forms: numerically equal in every part; scalar division and inv vs 1/a: within 16 u".into()],
        extra: json!({}),
        exhaustive: true,
        caps: vec![],
    };
    std::process::exit(finish(rep, stats));
}
