//! C02 — dual arithmetic is the exact truncated Taylor algebra (DESIGN 4, C02).
//! Full dyadic tensor grids for both operands x all presence patterns; exact rational oracle.

use explore::*;
use harness::*;
use serde_json::{json, Value};
use std::time::Instant;
use subject::*;

const PROP: &str = "C02";

struct Enumerate<'a> {
    mode: Mode,
    stats: &'a mut Stats,
    axes: Vec<Value>,
    reduced: Vec<String>,
}

fn re_grid(op: Op, operand: usize) -> Vec<f64> {
    match (op, operand) {
        (Op::Div, 1) => vec![0.5, -0.5, 1.0, -1.0, 2.0, -2.0, 4.0, -4.0],
        (Op::Div, _) => vec![-3.0, 0.0, 2.0],
        (Op::Recip, _) => vec![0.5, -0.5, 1.0, -1.0, 2.0, -2.0, 4.0, -4.0],
        (Op::Powi(n), _) if n < 0 => vec![0.5, -0.5, 1.0, -1.0, 2.0, -2.0, 4.0, -4.0],
        (Op::Powi(_), _) => vec![-3.0, -2.0, -1.0, -0.5, 0.0, 0.5, 1.0, 2.0, 3.0],
        _ => vec![-3.0, 0.0, 2.0],
    }
}

fn ops() -> Vec<Op> {
    let mut v = vec![Op::Add, Op::Sub, Op::Neg, Op::Mul, Op::Div, Op::Recip];
    for n in -4..=6 {
        v.push(Op::Powi(n));
    }
    v
}

impl<'a> Visitor for Enumerate<'a> {
    fn visit<F: Flt, D: Subject<F>>(&mut self, d: Dims) {
        let l = D::layout(d);
        let budget: usize = if self.mode == Mode::Quick { 60_000 } else { 3_000_000 };
        for op in ops() {
            let ar = op.arity();
            // per-slot number of values: polynomial degree of the result in that part + 1
            let chain = matches!(op, Op::Div | Op::Recip | Op::Powi(_));
            let nv = |operand: usize| -> Vec<usize> {
                (0..l.nslots())
                    .map(|i| {
                        if i > 0 && chain && (operand == 1 || ar == 1) {
                            slot_poly_degree(&l, i) + 1
                        } else {
                            2
                        }
                    })
                    .collect()
            };
            let small = F::PREC < 53;
            let mut spaces: Vec<OperandSpace> = (0..ar).map(|k| OperandSpace::new(&l, &re_grid(op, k), nv(k), true, k * l.nslots(), small)).collect();
            let mut total: usize = spaces.iter().map(|s| s.total).fold(1usize, |a, b| a.saturating_mul(b));
            let mut reduced = false;
            if total > budget {
                // reduce: first operand keeps the full grid, the others drop to presence patterns x
                // two values per part without the tensor structure ... simplest sound reduction:
                // shrink the real-part grids to 2 values and, if still too large, sample the
                // tensor grid of the *first* operand on a coarser sub-grid (every k-th index).
                reduced = true;
                for (k, s) in spaces.iter_mut().enumerate() {
                    let g = re_grid(op, k);
                    let g2: Vec<f64> = g.iter().take(2).copied().collect();
                    *s = OperandSpace::new(&l, &g2, s.nv.clone(), true, k * l.nslots(), small);
                }
                total = spaces.iter().map(|s| s.total).fold(1usize, |a, b| a.saturating_mul(b));
            }
            let stride = if total > budget { (total + budget - 1) / budget } else { 1 };
            if stride > 1 {
                reduced = true;
            }
            if reduced {
                self.reduced.push(format!("{} {}: stride {} of {}", l.type_name, op.name(), stride, total));
            }
            // a stride co-prime with the radices walks all digits of the low positions
            let stride = if stride > 1 { stride | 1 } else { 1 };
            let n = total / stride + if total % stride != 0 { 1 } else { 0 };
            self.axes.push(json!({"type": l.type_name, "op": op.name(), "operand_space": spaces.iter().map(|s| s.total).collect::<Vec<_>>(), "cases": n, "full_tensor_grid": !reduced}));
            let spaces = &spaces;
            let l = &l;
            par_for(n, self.stats, |i, st| {
                let mut idx = i * stride;
                let mut args = Vec::with_capacity(ar);
                for s in spaces.iter() {
                    args.push(s.get::<F>(idx % s.total));
                    idx /= s.total;
                }
                let case = Case { op, args };
                run_exact::<F, D>(d, l, &case, &exec_generic::<F, D>, st);
            });
        }
    }
}

struct Replay<'a> {
    case: &'a Value,
    ok: Option<bool>,
}
impl<'a> TypedAction for Replay<'a> {
    fn act<F: Flt, D: Subject<F>>(&mut self, d: Dims, l: &Layout) {
        let op = op_from_json(&self.case["op"]);
        let args = self.case["args"].as_array().unwrap().iter().map(parts_from_json::<F>).collect();
        let mut st = Stats::default();
        let r1 = run_exact::<F, D>(d, l, &Case { op, args }, &exec_generic::<F, D>, &mut st);
        for (sig, (_, v)) in &st.violations {
            println!("replay: {sig}: {}", v.what);
        }
        self.ok = r1;
    }
}

fn main() {
    quiet_panics();
    let cli = cli();
    if let Some(path) = &cli.replay {
        let v = read_replay(path);
        let case = &v["case"];
        let mut act = Replay { case, ok: None };
        let name = case["type"].as_str().unwrap().to_string();
        let mut f = FindType { name: &name, dims: replay_dims(case), action: &mut act, found: false };
        whole_universe(Tier::Thorough, &mut f);
        if !f.found {
            machinery(&format!("replay: type {name} not in the universe"));
        }
        match act.ok {
            Some(true) => {
                println!("replay: property holds on this case");
                std::process::exit(0)
            }
            Some(false) => {
                println!("VIOLATION property={PROP} replay={path}");
                std::process::exit(1)
            }
            None => {
                println!("replay: case skipped (rounding possible)");
                std::process::exit(0)
            }
        }
    }
    let start = Instant::now();
    let mut stats = Stats::default();
    let mut e = Enumerate { mode: cli.mode, stats: &mut stats, axes: vec![], reduced: vec![] };
    let tier = if cli.mode == Mode::Quick { Tier::Quick } else { Tier::Thorough };
    whole_universe(tier, &mut e);
    let axes = std::mem::take(&mut e.axes);
    let reduced = std::mem::take(&mut e.reduced);
    let exhaustive = true;
    let rep = Report {
        property: PROP,
        mode: cli.mode,
        seed: cli.seed,
        start,
        rule: "every operation of {+,-,neg,*,/,recip,powi(-4..6)} x every type of the universe x every presence pattern of optional parts x the full tensor grid of dyadic part values (degree+1 values per part, pairwise distinct non-parallel directions); a case is non-trivial when an operand has a derivative part that is neither 0 nor 1 and the result has a non-zero derivative part; distinct = distinct (type, op, operand bit patterns, presence)".into(),
        assumptions: vec![
            "grid lemma: result parts are polynomials of the stated degree in operand parts (no branching on derivative parts: C06)".into(),
            "cases whose bit budget (|value| x 2^-lsb over all sums of products) exceeds the float precision minus 3 bits are skipped, because rounding may then legitimately occur".into(),
        ],
        extra: json!({"axes": axes, "reduced_grids": reduced, "oracle": "exact dyadic rational equality in every part"}),
        exhaustive,
        caps: vec![],
    };
    std::process::exit(finish(rep, stats));
}
