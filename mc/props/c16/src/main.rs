//! C16 — serialization round-trips every part of a dual number.

use explore::*;
use harness::*;
use num_dual::*;
use serde::{de::DeserializeOwned, Serialize};
use serde_json::{json, Value};
use std::time::Instant;
use subject::*;

const PROP: &str = "C16";

fn alphabet<F: Flt>() -> Vec<F> {
    let third = F::from64(1.0 / 3.0);
    vec![
        F::from64(0.0),
        F::from64(-0.0),
        F::from64(1.5),
        F::from64(-2.25),
        third,
        F::from64(std::f64::consts::PI),
        F::from_bits64(1),                       // smallest denormal
        F::from64(if F::PREC == 53 { f64::MAX } else { f32::MAX as f64 }),
        F::from64(if F::PREC == 53 { -f64::MIN_POSITIVE } else { -(f32::MIN_POSITIVE as f64) }),
        // decimal fractions: 0.1 in the width of the type, and single-precision data widened to the
        // width of the type (its shortest single-precision decimal is a different double)
        F::from64(0.1),
        F::from64(0.1f32 as f64),
        F::from64(-1e15f32 as f64),
        // single-precision values that need all nine significant digits
        F::from64(1000.00006f32 as f64),
        F::from64(0.0012345679f32 as f64),
        F::from64(-1048577.1f32 as f64),
    ]
}

/// leaves of a JSON value as (path, number)
fn leaves(v: &Value, prefix: &str, out: &mut Vec<(String, Value)>) {
    match v {
        Value::Object(m) => {
            for (k, x) in m {
                let p = if prefix.is_empty() { k.clone() } else { format!("{prefix}.{k}") };
                leaves(x, &p, out);
            }
        }
        other => out.push((prefix.to_string(), other.clone())),
    }
}

/// key order of every object in a JSON text, as paths in order of appearance
fn key_order(text: &str) -> Vec<String> {
    let mut out = Vec::new();
    let mut stack: Vec<String> = Vec::new();
    let b = text.as_bytes();
    let mut i = 0;
    let mut pending: Option<String> = None;
    while i < b.len() {
        match b[i] {
            b'"' => {
                let j = i + 1 + text[i + 1..].find('"').unwrap();
                let key = &text[i + 1..j];
                // a string followed by ':' is a key
                if text[j + 1..].trim_start().starts_with(':') {
                    let path = if stack.is_empty() { key.to_string() } else { format!("{}.{}", stack.join("."), key) };
                    out.push(path);
                    pending = Some(key.to_string());
                }
                i = j;
            }
            b'{' => {
                if let Some(k) = pending.take() {
                    stack.push(k);
                } else if !out.is_empty() || i > 0 {
                    stack.push(String::new());
                }
            }
            b'}' => {
                stack.pop();
            }
            b',' => pending = None,
            _ => {}
        }
        i += 1;
    }
    out
}

/// a user struct that embeds the number with `#[serde(flatten)]`: serde then hands the number only
/// the members its Deserialize implementation announces as its fields
#[derive(Serialize, serde::Deserialize)]
#[serde(bound = "D: Serialize + DeserializeOwned")]
struct Wrap<D> {
    tag: u32,
    #[serde(flatten)]
    inner: D,
    tail: u32,
}

/// two flattened members (the members of the second are buffered while the number is read) and a
/// flattened catch-all map
#[derive(Serialize, serde::Deserialize)]
struct Extra {
    name: String,
    unit: u32,
}
#[derive(Serialize, serde::Deserialize)]
#[serde(bound = "D: Serialize + DeserializeOwned")]
struct Wrap2<D> {
    #[serde(flatten)]
    inner: D,
    #[serde(flatten)]
    extra: Extra,
}
#[derive(Serialize, serde::Deserialize)]
#[serde(bound = "D: Serialize + DeserializeOwned")]
struct Wrap3<D> {
    #[serde(flatten)]
    rest: std::collections::BTreeMap<String, Value>,
    #[serde(flatten)]
    inner: D,
}

/// A Serializer that only counts: for every struct it compares the number of members announced to
/// `serialize_struct` with the number of members written (formats with length prefixes - MessagePack,
/// CBOR, bincode - write the announced number into the stream and cut off or misread the rest).
struct LenCheck<'a>(&'a std::cell::RefCell<Vec<String>>);
struct LenStruct<'a> {
    log: &'a std::cell::RefCell<Vec<String>>,
    name: &'static str,
    announced: usize,
    written: usize,
}
impl<'a> serde::ser::SerializeStruct for LenStruct<'a> {
    type Ok = ();
    type Error = serde::de::value::Error;
    fn serialize_field<T: ?Sized + Serialize>(&mut self, _key: &'static str, value: &T) -> Result<(), Self::Error> {
        self.written += 1;
        value.serialize(LenCheck(self.log))
    }
    fn end(self) -> Result<(), Self::Error> {
        if self.announced != self.written {
            self.log.borrow_mut().push(format!("{} announces {} members and writes {}", self.name, self.announced, self.written));
        }
        Ok(())
    }
}
macro_rules! len_prims {
    ($($m:ident: $t:ty),*) => { $(fn $m(self, _v: $t) -> Result<(), Self::Error> { Ok(()) })* };
}
impl<'a> serde::Serializer for LenCheck<'a> {
    type Ok = ();
    type Error = serde::de::value::Error;
    type SerializeSeq = serde::ser::Impossible<(), Self::Error>;
    type SerializeTuple = serde::ser::Impossible<(), Self::Error>;
    type SerializeTupleStruct = serde::ser::Impossible<(), Self::Error>;
    type SerializeTupleVariant = serde::ser::Impossible<(), Self::Error>;
    type SerializeMap = serde::ser::Impossible<(), Self::Error>;
    type SerializeStruct = LenStruct<'a>;
    type SerializeStructVariant = serde::ser::Impossible<(), Self::Error>;
    len_prims!(serialize_bool: bool, serialize_i8: i8, serialize_i16: i16, serialize_i32: i32, serialize_i64: i64, serialize_u8: u8, serialize_u16: u16, serialize_u32: u32,
               serialize_u64: u64, serialize_f32: f32, serialize_f64: f64, serialize_char: char, serialize_str: &str, serialize_bytes: &[u8]);
    fn serialize_none(self) -> Result<(), Self::Error> { Ok(()) }
    fn serialize_some<T: ?Sized + Serialize>(self, v: &T) -> Result<(), Self::Error> { v.serialize(self) }
    fn serialize_unit(self) -> Result<(), Self::Error> { Ok(()) }
    fn serialize_unit_struct(self, _n: &'static str) -> Result<(), Self::Error> { Ok(()) }
    fn serialize_unit_variant(self, _n: &'static str, _i: u32, _v: &'static str) -> Result<(), Self::Error> { Ok(()) }
    fn serialize_newtype_struct<T: ?Sized + Serialize>(self, _n: &'static str, v: &T) -> Result<(), Self::Error> { v.serialize(self) }
    fn serialize_newtype_variant<T: ?Sized + Serialize>(self, _n: &'static str, _i: u32, _v: &'static str, v: &T) -> Result<(), Self::Error> { v.serialize(self) }
    fn serialize_seq(self, _l: Option<usize>) -> Result<Self::SerializeSeq, Self::Error> { Err(serde::ser::Error::custom("sequence")) }
    fn serialize_tuple(self, _l: usize) -> Result<Self::SerializeTuple, Self::Error> { Err(serde::ser::Error::custom("tuple")) }
    fn serialize_tuple_struct(self, _n: &'static str, _l: usize) -> Result<Self::SerializeTupleStruct, Self::Error> { Err(serde::ser::Error::custom("tuple struct")) }
    fn serialize_tuple_variant(self, _n: &'static str, _i: u32, _v: &'static str, _l: usize) -> Result<Self::SerializeTupleVariant, Self::Error> { Err(serde::ser::Error::custom("tuple variant")) }
    fn serialize_map(self, _l: Option<usize>) -> Result<Self::SerializeMap, Self::Error> { Err(serde::ser::Error::custom("map")) }
    fn serialize_struct(self, name: &'static str, len: usize) -> Result<Self::SerializeStruct, Self::Error> {
        Ok(LenStruct { log: self.0, name, announced: len, written: 0 })
    }
    fn serialize_struct_variant(self, _n: &'static str, _i: u32, _v: &'static str, _l: usize) -> Result<Self::SerializeStructVariant, Self::Error> { Err(serde::ser::Error::custom("struct variant")) }
}

/// records the struct name and field list a Deserialize implementation announces
struct FieldRecorder<'a>(&'a mut Option<(&'static str, Vec<&'static str>)>);
impl<'de, 'a> serde::Deserializer<'de> for FieldRecorder<'a> {
    type Error = serde::de::value::Error;
    fn deserialize_any<V: serde::de::Visitor<'de>>(self, _v: V) -> Result<V::Value, Self::Error> {
        Err(serde::de::Error::custom("recorder"))
    }
    fn deserialize_struct<V: serde::de::Visitor<'de>>(self, name: &'static str, fields: &'static [&'static str], _v: V) -> Result<V::Value, Self::Error> {
        *self.0 = Some((name, fields.to_vec()));
        Err(serde::de::Error::custom("recorder"))
    }
    serde::forward_to_deserialize_any! {
        bool i8 i16 i32 i64 i128 u8 u16 u32 u64 u128 f32 f64 char str string bytes byte_buf option unit unit_struct
        newtype_struct seq tuple tuple_struct map enum identifier ignored_any
    }
}

fn check_type<F: Flt + Serialize + DeserializeOwned, D: Subject<F> + Serialize + DeserializeOwned>(st: &mut Stats, full_product: bool) {
    let d = Dims::NONE;
    let l = D::layout(d);
    let tn = l.type_name.clone();
    let alpha = alphabet::<F>();
    let n = l.nslots();
    let a = alpha.len();
    // full product for <= 4 slots, otherwise each slot sweeps the alphabet while the others hold
    // pairwise distinct values
    let mut cases: Vec<Vec<F>> = Vec::new();
    if full_product && n <= 4 {
        let total = a.pow(n as u32);
        for mut idx in 0..total {
            let mut v = Vec::with_capacity(n);
            for _ in 0..n {
                v.push(alpha[idx % a]);
                idx /= a;
            }
            cases.push(v);
        }
    } else {
        for s in 0..n {
            for x in &alpha {
                let mut v: Vec<F> = (0..n).map(|i| F::from64(part_value(i, 1 + i % 3))).collect();
                v[s] = *x;
                cases.push(v);
            }
        }
    }
    let slot_names: Vec<String> = l.slots.iter().map(|s| s.name.clone()).collect();
    // the field list the Deserialize implementation announces (what flattening, field-filtering and
    // self-describing formats go by) is exactly the documented top-level names in declaration order
    {
        let mut top: Vec<String> = Vec::new();
        for s in &slot_names {
            let t = s.split('.').next().unwrap().to_string();
            if !top.contains(&t) {
                top.push(t);
            }
        }
        // the member count announced to the Serializer is the number of members written
        {
            let log = std::cell::RefCell::new(Vec::new());
            let probe = D::build(d, &Parts { vals: (0..n).map(|i| F::from64(part_value(i, 1))).collect(), present: vec![] });
            let r = probe.serialize(LenCheck(&log));
            st.evaluations += 1;
            if r.is_err() || !log.borrow().is_empty() {
                st.violation(Violation { sig: format!("serde {tn} announced-length"), case: json!({"type": tn}), what: format!("serialize: {:?} {:?}", r.err().map(|e| e.to_string()), log.borrow()) });
            }
        }
        let mut rec = None;
        let _ = <D as serde::Deserialize>::deserialize(FieldRecorder(&mut rec));
        st.evaluations += 1;
        if let Some((_, fields)) = rec {
            let fields: Vec<String> = fields.iter().map(|f| f.to_string()).collect();
            if fields != top {
                st.violation(Violation { sig: format!("serde {tn} announced-fields"), case: json!({"type": tn}), what: format!("Deserialize announces the fields {fields:?}, the stored members are {top:?}") });
            }
        }
    }
    for vals in cases {
        let p = Parts { vals: vals.clone(), present: vec![] };
        let x = D::build(d, &p);
        st.evaluations += 1;
        st.transitions += 2;
        let key = hash64(&(tn.as_str(), p.bits()));
        st.state(key);
        st.nontrivial(key);
        let mut fails: Vec<(String, String)> = Vec::new();
        let mut outcome: Option<u64> = None;
        let mut fail = |kind: &str, what: String| fails.push((kind.to_string(), what));
        'case: {
        // (i) through serde_json::Value: no text parsing, numbers held as f64
        let v = match serde_json::to_value(&x) {
            Ok(v) => v,
            Err(e) => {
                fail("serialize", format!("to_value failed: {e}"));
                break 'case;
            }
        };
        let mut lv = Vec::new();
        leaves(&v, "", &mut lv);
        let mut names: Vec<String> = lv.iter().map(|(k, _)| k.clone()).collect();
        names.sort();
        let mut expect = slot_names.clone();
        expect.sort();
        if names != expect {
            fail("fields", format!("stored fields {names:?}, documented fields {expect:?}"));
            break 'case;
        }
        for (k, val) in &lv {
            let i = slot_names.iter().position(|s| s == k).unwrap();
            let stored = val.as_f64();
            if stored.map(|s| s.to_bits()) != Some(vals[i].to64().to_bits()) {
                fail("value", format!("field {k} stores {val} but the part is {:e}", vals[i].to64()));
            }
        }
        match serde_json::from_value::<D>(v.clone()) {
            Ok(back) => {
                let bp = back.parts(d);
                outcome = Some(hash64(&bp.bits()));
                if bp.bits() != p.bits() {
                    let i = (0..n).find(|&i| bp.vals[i].bits() != vals[i].bits()).unwrap();
                    fail("roundtrip", format!("slot {} restored as {:e}, was {:e}", slot_names[i], bp.vals[i].to64(), vals[i].to64()));
                }
            }
            Err(e) => fail("deserialize", format!("from_value failed: {e}")),
        }
        // (iv) embedded in a user struct with #[serde(flatten)]
        match serde_json::to_value(&Wrap { tag: 7, inner: x.clone(), tail: 9 }) {
            Ok(wv) => match serde_json::from_value::<Wrap<D>>(wv.clone()) {
                Ok(back) => {
                    let bp = back.inner.parts(d);
                    if bp.bits() != p.bits() || back.tag != 7 || back.tail != 9 {
                        let i = (0..n).find(|&i| bp.vals[i].bits() != vals[i].bits()).unwrap_or(0);
                        fail("flatten-roundtrip", format!("flattened into a user struct: slot {} restored as {:e}, was {:e}", slot_names[i], bp.vals[i].to64(), vals[i].to64()));
                    }
                }
                Err(e) => fail("flatten-deserialize", format!("from_value of the flattened struct failed: {e}")),
            },
            Err(e) => fail("flatten-serialize", format!("to_value of the flattened struct failed: {e}")),
        }
        // (v) next to a second flattened struct, and under a flattened catch-all map (which receives
        // every member, the number's own included - the number must still be restored)
        match serde_json::to_value(&Wrap2 { inner: x.clone(), extra: Extra { name: "n".into(), unit: 3 } }).and_then(serde_json::from_value::<Wrap2<D>>) {
            Ok(back) => {
                if back.inner.parts(d).bits() != p.bits() || back.extra.unit != 3 {
                    fail("flatten2-roundtrip", "flattened next to a second flattened struct: the parts are not restored".into());
                }
            }
            Err(e) => fail("flatten2-deserialize", format!("a user struct with two flattened members (the number and a plain struct) fails: {e}")),
        }
        {
            let mut rest = std::collections::BTreeMap::new();
            rest.insert("note".to_string(), json!("x"));
            match serde_json::to_value(&Wrap3 { rest, inner: x.clone() }).and_then(serde_json::from_value::<Wrap3<D>>) {
                Ok(back) => {
                    if back.inner.parts(d).bits() != p.bits() {
                        fail("flatten3-roundtrip", "flattened next to a catch-all map: the parts are not restored".into());
                    }
                }
                Err(e) => fail("flatten3-deserialize", format!("a user struct with a flattened catch-all map and the flattened number fails: {e}")),
            }
        }
        // (ii) through JSON text, for values the format represents exactly: a value qualifies when
        // the bare float survives to_string / from_str bit for bit (serde_json without
        // float_roundtrip may misparse long decimals by one ulp - that is the format, not num-dual)
        let short = vals.iter().all(|v| {
            serde_json::to_string(v).ok().and_then(|t| serde_json::from_str::<F>(&t).ok()).map(|b| b.bits() == v.bits()).unwrap_or(false)
        });
        if short {
            let text = serde_json::to_string(&x).unwrap();
            // (iii) field order = declaration order
            let order = key_order(&text);
            let leaf_order: Vec<String> = order.into_iter().filter(|k| slot_names.contains(k)).collect();
            if leaf_order != slot_names {
                fail("order", format!("fields serialized in order {leaf_order:?}, declared order {slot_names:?}"));
            }
            match serde_json::from_str::<D>(&text) {
                Ok(back) => {
                    let bp = back.parts(d);
                    let same = (0..n).all(|i| bp.vals[i].bits() == vals[i].bits());
                    if !same {
                        fail("text-roundtrip", format!("{text} does not deserialize to the original parts"));
                    }
                }
                Err(e) => fail("text-deserialize", format!("from_str({text}) failed: {e}")),
            }
        }
        }
        if let Some(o) = outcome {
            st.outcome(o);
        }
        for (kind, what) in fails {
            st.violation(Violation { sig: format!("serde {tn} {kind}"), case: json!({"type": tn, "value": parts_to_json(&p)}), what });
        }
    }
    st.sample(|| json!({"type": tn, "fields": slot_names, "example": serde_json::to_value(D::build(d, &Parts { vals: (0..n).map(|i| F::from64(part_value(i, 1))).collect(), present: vec![] })).unwrap()}));
}


/// replaces (Some) or removes (None) the leaf at a dotted path
fn with_leaf(v: &Value, path: &str, new: Option<Value>) -> Value {
    let mut out = v.clone();
    let keys: Vec<&str> = path.split('.').collect();
    let mut cur = &mut out;
    for k in &keys[..keys.len() - 1] {
        cur = cur.get_mut(*k).unwrap();
    }
    let last = keys[keys.len() - 1];
    match new {
        Some(x) => {
            cur.as_object_mut().unwrap().insert(last.to_string(), x);
        }
        None => {
            cur.as_object_mut().unwrap().remove(last);
        }
    }
    out
}

/// History with rejected inputs: documents that are malformed in exactly one part (a string, null,
/// an array or an object in place of the number; the member missing; the text cut off behind the
/// member), each offered `REJECTS` times through from_value and from_str. Nothing is demanded of
/// these calls (the property does not speak about malformed input); what is demanded is that the
/// round trip of valid values holds afterwards exactly as before, on the same thread.
const REJECTS: usize = 130;
fn poison<F: Flt + Serialize + DeserializeOwned, D: Subject<F> + Serialize + DeserializeOwned>(st: &mut Stats) {
    let d = Dims::NONE;
    let n = D::layout(d).nslots();
    let vals: Vec<F> = (0..n).map(|i| F::from64(1.5 + i as f64 * 0.25)).collect();
    let x = D::write(d, &mut vals.iter().copied(), &mut std::iter::repeat(true));
    let v = serde_json::to_value(&x).unwrap();
    let mut lv = Vec::new();
    leaves(&v, "", &mut lv);
    for (path, _) in &lv {
        let mut docs: Vec<Value> = vec![
            with_leaf(&v, path, Some(json!("n/a"))),
            with_leaf(&v, path, Some(Value::Null)),
            with_leaf(&v, path, Some(json!([1.0]))),
            with_leaf(&v, path, Some(json!({"x": 1.0}))),
            with_leaf(&v, path, None),
        ];
        docs.push(with_leaf(&v, path, Some(json!(true))));
        for doc in &docs {
            let text = doc.to_string();
            let cut = &text[..text.len() / 2];
            for _ in 0..REJECTS {
                let _ = serde_json::from_value::<D>(doc.clone());
                let _ = serde_json::from_str::<D>(&text);
                let _ = serde_json::from_str::<D>(cut);
                st.evaluations += 3;
                st.transitions += 3;
            }
        }
    }
    *st.counters.entry("rejected documents offered before the second pass".into()).or_insert(0) += (lv.len() * 6 * 3 * REJECTS) as u64;
}

fn after_rejected_inputs(st: &mut Stats) {
    poison::<f64, Dual64>(st);
    poison::<f32, Dual32>(st);
    poison::<f64, Dual2_64>(st);
    poison::<f64, Dual3_64>(st);
    poison::<f64, HyperDual64>(st);
    poison::<f64, HyperHyperDual64>(st);
    poison::<f32, HyperHyperDual32>(st);
    poison::<f64, Dual<Dual64, f64>>(st);
    poison::<f64, Dual3<HyperDual64, f64>>(st);
    let mut second = Stats::default();
    check_type::<f64, Dual64>(&mut second, false);
    check_type::<f32, Dual32>(&mut second, false);
    check_type::<f64, Dual2_64>(&mut second, false);
    check_type::<f32, Dual2_32>(&mut second, false);
    check_type::<f64, Dual3_64>(&mut second, false);
    check_type::<f64, HyperDual64>(&mut second, false);
    check_type::<f64, HyperHyperDual64>(&mut second, false);
    check_type::<f32, HyperHyperDual32>(&mut second, false);
    check_type::<f64, Dual<Dual64, f64>>(&mut second, false);
    check_type::<f64, Dual3<HyperDual64, f64>>(&mut second, false);
    check_type::<f64, Dual<Dual<Dual64, f64>, f64>>(&mut second, false);
    st.evaluations += second.evaluations;
    st.transitions += second.transitions;
    for (sig, (n, v)) in second.violations {
        st.evaluations += 1;
        st.violation(Violation { sig: format!("{sig} (after rejected inputs)"), case: json!({"history": format!("every part of every type replaced by a malformed member, {REJECTS} times each, on the same thread; then the valid value"), "class": sig, "cases": n, "case": v.case}), what: format!("only after malformed documents were rejected on the same thread: {}", v.what) });
    }
}

fn run_all(st: &mut Stats) {
    check_type::<f64, Dual64>(st, true);
    check_type::<f32, Dual32>(st, true);
    check_type::<f64, Dual2_64>(st, true);
    check_type::<f32, Dual2_32>(st, true);
    check_type::<f64, Dual3_64>(st, true);
    check_type::<f32, Dual3_32>(st, true);
    check_type::<f64, HyperDual64>(st, true);
    check_type::<f32, HyperDual32>(st, true);
    check_type::<f64, HyperHyperDual64>(st, false);
    check_type::<f32, HyperHyperDual32>(st, false);
    check_type::<f64, Dual<Dual64, f64>>(st, true);
    check_type::<f64, Dual2<Dual64, f64>>(st, false);
    check_type::<f64, Dual3<HyperDual64, f64>>(st, false);
    check_type::<f64, HyperDual<Dual2_64, f64>>(st, false);
    check_type::<f64, HyperHyperDual<Dual64, f64>>(st, false);
    check_type::<f32, Dual<Dual32, f32>>(st, true);
    check_type::<f64, Dual<Dual<Dual64, f64>, f64>>(st, false);
    after_rejected_inputs(st);
}

/// the single-precision types first (state shared between the monomorphisations of a generic helper -
/// a `static` inside a generic function - is initialised by whichever float width comes first)
fn run_all_f32_first(st: &mut Stats) {
    check_type::<f32, Dual32>(st, false);
    check_type::<f32, Dual2_32>(st, false);
    check_type::<f32, Dual3_32>(st, false);
    check_type::<f32, HyperDual32>(st, false);
    check_type::<f32, HyperHyperDual32>(st, false);
    check_type::<f64, Dual64>(st, false);
    check_type::<f64, Dual2_64>(st, false);
    check_type::<f64, Dual3_64>(st, false);
    check_type::<f64, HyperDual64>(st, false);
    check_type::<f64, HyperHyperDual64>(st, false);
    check_type::<f64, Dual<Dual64, f64>>(st, false);
}

fn main() {
    quiet_panics();
    if std::env::args().nth(1).as_deref() == Some("f32first") {
        // history run in a process of its own: prints one line per violation class
        let mut stats = Stats::default();
        let _ = guarded(|| run_all_f32_first(&mut stats));
        for (sig, (n, v)) in &stats.violations {
            println!("HISTORY\t{sig}\t{n}\t{}", v.what.replace('\n', " "));
        }
        println!("history: evaluations={}", stats.evaluations);
        std::process::exit(0);
    }
    let cli = cli();
    let start = Instant::now();
    let mut stats = Stats::default();
    if let Err(m) = guarded(|| run_all(&mut stats)) {
        stats.violation(Violation { sig: "serde panic".into(), case: json!({}), what: format!("panicked: {m}") });
    }
    // the other order of the float widths, in a fresh process
    match std::process::Command::new(std::env::current_exe().unwrap()).arg("f32first").output() {
        Ok(o) if o.status.success() && String::from_utf8_lossy(&o.stdout).contains("history: evaluations=") => {
            for line in String::from_utf8_lossy(&o.stdout).lines() {
                let f: Vec<&str> = line.split('\t').collect();
                if f.len() == 4 && f[0] == "HISTORY" {
                    stats.evaluations += 1;
                    stats.violation(Violation { sig: format!("{} (single precision first)", f[1]), case: json!({"order": "single-precision types first, in a fresh process", "class": f[1], "cases": f[2]}), what: format!("only when the single-precision types are handled first: {}", f[3]) });
                }
            }
        }
        other => machinery(&format!("history subprocess failed: {other:?}")),
    }
    if let Some(path) = &cli.replay {
        let v = read_replay(path);
        let sig = v["sig"].as_str().unwrap_or("");
        if let Some((n, viol)) = stats.violations.get(sig) {
            println!("replay: {sig}: {} ({n} cases)", viol.what);
            println!("VIOLATION property={PROP} replay={path}");
            std::process::exit(1);
        }
        println!("replay: property holds on this case");
        std::process::exit(0);
    }
    let rep = Report {
        property: PROP,
        mode: cli.mode,
        seed: cli.seed,
        start,
        rule: "Dual, Dual2, Dual3, HyperDual, HyperHyperDual over f32 and f64 and the nestings Dual<Dual>, Dual<Dual<Dual>>, Dual2<Dual>, Dual3<HyperDual>, HyperDual<Dual2>, HyperHyperDual<Dual> x parts from {0, -0, 1.5, -2.25, 1/3, pi, smallest denormal, MAX, -MIN_POSITIVE, 0.1, 0.1f32 and -1e15f32 widened, three single-precision values that need nine digits}: full product for <= 4 parts, each part sweeping the alphabet with pairwise distinct other parts beyond; through serde_json::Value (bit-exact), through JSON text for every value whose bare float survives the text format bit for bit, with the field order read off the serialized text, embedded in a user struct with #[serde(flatten)], with the field list announced to the Deserializer and the member count announced to the Serializer compared with the stored members; the whole enumeration (per-part sweeps) also in a fresh process that handles the single-precision types first; and once more on the same thread after a history of rejected inputs (for nine types every member in turn replaced by a string, null, a boolean, an array, an object, or left out, and the text cut in half, each offered 130 times through from_value and from_str). Non-trivial: every value.".into(),
        assumptions: vec!["serde_json::Value holds numbers as f64, so f32 and f64 parts are represented exactly; JSON text is only used for values it represents exactly, decided on the bare float".into()],
        extra: json!({}),
        exhaustive: true,
        caps: vec![],
    };
    std::process::exit(finish(rep, stats));
}
