//! C18 — textual rendering shows every part faithfully.

use explore::*;
use harness::*;
use nalgebra::allocator::Allocator;
use nalgebra::{Const, DefaultAllocator, Dyn, U1};
use num_dual::*;
use serde_json::json;
use std::fmt::Display;
use std::time::Instant;
use subject::*;

const PROP: &str = "C18";

/// independent formatter of the documented grammar: real part, then for every PRESENT part in
/// declaration order ` + <part><symbol>`; components are rendered by their own Display
trait Expected<F: Flt>: Subject<F> {
    fn expected(&self, d: Dims) -> String;
    /// symbols in declaration order (for the evidence)
    fn symbols() -> Vec<&'static str>;
}

fn part<T: DualNum<F> + Display, F: PartialEq + Clone, R: DimX, C: DimX>(x: &Derivative<T, F, R, C>, r: usize, c: usize, symbol: &str) -> String
where
    DefaultAllocator: Allocator<R, C>,
{
    if *x == Derivative::none() {
        return String::new();
    }
    let m = x.clone().unwrap_generic(R::make(r), C::make(c));
    let body = match (r, c) {
        (1, 1) => format!("{}", m[(0, 0)]),
        (1, _) | (_, 1) => {
            let items: Vec<String> = m.iter().map(|v| v.to_string()).collect();
            format!("[{}]", items.join(", "))
        }
        _ => format!("{}", m), // nalgebra's own matrix rendering; its numbers are checked as tokens
    };
    format!(" + {body}{symbol}")
}

impl<F: Flt, T: Subject<F> + Display> Expected<F> for Dual<T, F> {
    fn expected(&self, _: Dims) -> String {
        format!("{} + {}ε", self.re, self.eps)
    }
    fn symbols() -> Vec<&'static str> {
        vec!["ε"]
    }
}
impl<F: Flt, T: Subject<F> + Display> Expected<F> for Dual2<T, F> {
    fn expected(&self, _: Dims) -> String {
        format!("{} + {}ε1 + {}ε1²", self.re, self.v1, self.v2)
    }
    fn symbols() -> Vec<&'static str> {
        vec!["ε1", "ε1²"]
    }
}
impl<F: Flt, T: Subject<F> + Display> Expected<F> for Dual3<T, F> {
    fn expected(&self, _: Dims) -> String {
        format!("{} + {}v1 + {}v2 + {}v3", self.re, self.v1, self.v2, self.v3)
    }
    fn symbols() -> Vec<&'static str> {
        vec!["v1", "v2", "v3"]
    }
}
impl<F: Flt, T: Subject<F> + Display> Expected<F> for HyperDual<T, F> {
    fn expected(&self, _: Dims) -> String {
        format!("{} + {}ε1 + {}ε2 + {}ε1ε2", self.re, self.eps1, self.eps2, self.eps1eps2)
    }
    fn symbols() -> Vec<&'static str> {
        vec!["ε1", "ε2", "ε1ε2"]
    }
}
impl<F: Flt, T: Subject<F> + Display> Expected<F> for HyperHyperDual<T, F> {
    fn expected(&self, _: Dims) -> String {
        format!(
            "{} + {}ε1 + {}ε2 + {}ε3 + {}ε1ε2 + {}ε1ε3 + {}ε2ε3 + {}ε1ε2ε3",
            self.re, self.eps1, self.eps2, self.eps3, self.eps1eps2, self.eps1eps3, self.eps2eps3, self.eps1eps2eps3
        )
    }
    fn symbols() -> Vec<&'static str> {
        vec!["ε1", "ε2", "ε3", "ε1ε2", "ε1ε3", "ε2ε3", "ε1ε2ε3"]
    }
}
impl<F: Flt, T: Subject<F> + Display, D: DimX> Expected<F> for DualVec<T, F, D>
where
    DefaultAllocator: Allocator<D> + Allocator<U1, D> + Allocator<D, D>,
    DualVec<T, F, D>: DualNum<F> + Send + Sync,
{
    fn expected(&self, d: Dims) -> String {
        format!("{}{}", self.re, part(&self.eps, d.n, 1, "ε"))
    }
    fn symbols() -> Vec<&'static str> {
        vec!["ε"]
    }
}
impl<F: Flt, T: Subject<F> + Display, D: DimX> Expected<F> for Dual2Vec<T, F, D>
where
    DefaultAllocator: Allocator<D> + Allocator<U1, D> + Allocator<D, D>,
    Dual2Vec<T, F, D>: DualNum<F> + Send + Sync,
{
    fn expected(&self, d: Dims) -> String {
        format!("{}{}{}", self.re, part(&self.v1, 1, d.n, "ε1"), part(&self.v2, d.n, d.n, "ε1²"))
    }
    fn symbols() -> Vec<&'static str> {
        vec!["ε1", "ε1²"]
    }
}
impl<F: Flt, T: Subject<F> + Display, M: DimX, N: DimX> Expected<F> for HyperDualVec<T, F, M, N>
where
    DefaultAllocator: Allocator<M> + Allocator<M, N> + Allocator<U1, N>,
    HyperDualVec<T, F, M, N>: DualNum<F> + Send + Sync,
{
    fn expected(&self, d: Dims) -> String {
        format!("{}{}{}{}", self.re, part(&self.eps1, d.m, 1, "ε1"), part(&self.eps2, 1, d.n, "ε2"), part(&self.eps1eps2, d.m, d.n, "ε1ε2"))
    }
    fn symbols() -> Vec<&'static str> {
        vec!["ε1", "ε2", "ε1ε2"]
    }
}

/// numeric tokens of a rendering, in order: a token starts at a digit or at '-' followed by a
/// digit, provided the previous character is not part of a symbol (ε, v, or a digit after them)
fn tokens(s: &str) -> Vec<String> {
    let ch: Vec<char> = s.chars().collect();
    let mut out = Vec::new();
    let mut i = 0;
    let mut in_symbol = false;
    while i < ch.len() {
        let c = ch[i];
        if c == 'ε' || c == 'v' || c == '²' {
            in_symbol = true;
            i += 1;
            continue;
        }
        if in_symbol && c.is_ascii_digit() {
            i += 1;
            continue;
        }
        in_symbol = false;
        let neg = c == '-' && i + 1 < ch.len() && ch[i + 1].is_ascii_digit();
        if c.is_ascii_digit() || neg {
            let mut j = i + 1;
            while j < ch.len() && (ch[j].is_ascii_digit() || ch[j] == '.' || ch[j] == 'e' || (ch[j] == '-' && ch[j - 1] == 'e')) {
                j += 1;
            }
            out.push(ch[i..j].iter().collect());
            i = j;
        } else {
            i += 1;
        }
    }
    out
}

const ALPHA: [f64; 8] = [0.0, -0.0, 1.0, -1.5, 1e-7, 123456789.125, 1e21, 5e-324];

struct Enumerate<'a> {
    stats: &'a mut Stats,
    shapes: Vec<String>,
}

impl<'a> Enumerate<'a> {
    fn visit<F: Flt + std::str::FromStr, D: Expected<F> + Display>(&mut self, d: Dims) {
        let l = D::layout(d);
        let tn = l.type_name.clone();
        let g = l.ngroups();
        let n = l.nslots();
        for pat in 0..(1usize << g) {
            let present: Vec<bool> = (0..g).map(|i| pat & (1 << i) == 0).collect();
            for shift in 0..ALPHA.len() {
                let vals: Vec<F> = (0..n)
                    .map(|i| {
                        let k = i + shift;
                        let base = ALPHA[k % ALPHA.len()];
                        F::from64(if k / ALPHA.len() % 2 == 0 || base.abs() > 1e6 || base.abs() < 1e-6 { if i >= ALPHA.len() { (i as f64) * 1.5 + base.signum() * 0.25 } else { base } } else { base + (k / ALPHA.len()) as f64 })
                    })
                    .collect();
                let p = Parts { vals, present: present.clone() };
                let x = D::build(d, &p);
                let s = x.to_string();
                self.stats.evaluations += 1;
                self.stats.transitions += 1;
                let key = hash64(&(tn.as_str(), p.bits(), p.present.clone()));
                self.stats.state(key);
                self.stats.nontrivial(key);
                self.stats.outcome(hash64(&s));
                let mut fails: Vec<(&str, String)> = Vec::new();
                // (1) the documented grammar
                let want = x.expected(d);
                if s != want {
                    fails.push(("grammar", format!("rendered {s:?}, the documented grammar gives {want:?}")));
                }
                // (2) every number parses back to exactly the stored value; count = present components
                let toks = tokens(&s);
                let present_slots: Vec<usize> = (0..n).filter(|&i| p.slot_present(&l, i)).collect();
                if toks.len() != present_slots.len() {
                    fails.push(("count", format!("{} numbers printed for {} present components: {s:?}", toks.len(), present_slots.len())));
                } else {
                    for (t, &i) in toks.iter().zip(&present_slots) {
                        let ok = match t.parse::<F>() {
                            Ok(v) => v.bits() == p.vals[i].bits(),
                            Err(_) => false,
                        };
                        if !ok {
                            fails.push(("value", format!("component {} is {:e} but the text shows {t} in {s:?}", l.slots[i].name, p.vals[i].to64())));
                            break;
                        }
                    }
                }
                // (3) absent parts are omitted: their symbol must not appear more often than there are present parts carrying it
                for (kind, what) in fails {
                    self.stats.violation(Violation { sig: format!("display {tn} {kind}"), case: json!({"type": tn, "value": parts_to_json(&p), "rendered": s}), what });
                }
                if shift == 0 && pat == 0 {
                    self.stats.sample(|| json!({"type": tn, "value": p.vals.iter().map(|v| v.to64()).collect::<Vec<_>>(), "rendered": s, "symbols": D::symbols()}));
                }
            }
        }
        self.shapes.push(format!("{tn} ({} presence patterns)", 1 << g));
    }
}

fn run_all(e: &mut Enumerate, thorough: bool) {
    // scalar types, both widths
    e.visit::<f64, Dual64>(Dims::NONE);
    e.visit::<f32, Dual32>(Dims::NONE);
    e.visit::<f64, Dual2_64>(Dims::NONE);
    e.visit::<f32, Dual2_32>(Dims::NONE);
    e.visit::<f64, Dual3_64>(Dims::NONE);
    e.visit::<f32, Dual3_32>(Dims::NONE);
    e.visit::<f64, HyperDual64>(Dims::NONE);
    e.visit::<f32, HyperDual32>(Dims::NONE);
    e.visit::<f64, HyperHyperDual64>(Dims::NONE);
    e.visit::<f32, HyperHyperDual32>(Dims::NONE);
    // vector types: 1x1, 1xn, nx1, mxn shapes (the four branches of the part renderer), static and dynamic
    e.visit::<f64, DualVec<f64, f64, Const<1>>>(Dims::n(1));
    e.visit::<f64, DualVec<f64, f64, Const<2>>>(Dims::n(2));
    e.visit::<f64, DualVec<f64, f64, Const<3>>>(Dims::n(3));
    e.visit::<f32, DualVec<f32, f32, Const<2>>>(Dims::n(2));
    e.visit::<f64, Dual2Vec<f64, f64, Const<1>>>(Dims::n(1));
    e.visit::<f64, Dual2Vec<f64, f64, Const<2>>>(Dims::n(2));
    e.visit::<f64, Dual2Vec<f64, f64, Const<3>>>(Dims::n(3));
    e.visit::<f64, HyperDualVec<f64, f64, Const<1>, Const<1>>>(Dims::mn(1, 1));
    e.visit::<f64, HyperDualVec<f64, f64, Const<1>, Const<2>>>(Dims::mn(1, 2));
    e.visit::<f64, HyperDualVec<f64, f64, Const<2>, Const<1>>>(Dims::mn(2, 1));
    e.visit::<f64, HyperDualVec<f64, f64, Const<2>, Const<3>>>(Dims::mn(2, 3));
    for n in 0..=3usize {
        e.visit::<f64, DualVec<f64, f64, Dyn>>(Dims::n(n));
        e.visit::<f64, Dual2Vec<f64, f64, Dyn>>(Dims::n(n));
    }
    for (m, n) in [(0usize, 0usize), (0, 2), (2, 0), (1, 1), (1, 3), (3, 1), (2, 2), (3, 2)] {
        e.visit::<f64, HyperDualVec<f64, f64, Dyn, Dyn>>(Dims::mn(m, n));
    }
    // long parts (the Python classes go up to 10 fixed-size entries and beyond that dynamically):
    // a renderer that wraps or abbreviates long vectors must still print every entry
    e.visit::<f64, DualVec<f64, f64, Const<10>>>(Dims::n(10));
    for n in [8usize, 9, 12, 17] {
        e.visit::<f64, DualVec<f64, f64, Dyn>>(Dims::n(n));
    }
    e.visit::<f64, Dual2Vec<f64, f64, Dyn>>(Dims::n(9));
    e.visit::<f64, HyperDualVec<f64, f64, Dyn, Dyn>>(Dims::mn(9, 2));
    e.visit::<f64, HyperDualVec<f64, f64, Dyn, Dyn>>(Dims::mn(1, 12));
    e.visit::<f32, Dual2Vec<f32, f32, Dyn>>(Dims::n(2));
    e.visit::<f32, HyperDualVec<f32, f32, Dyn, Dyn>>(Dims::mn(2, 2));
    // nested
    e.visit::<f64, Dual<Dual64, f64>>(Dims::NONE);
    e.visit::<f64, Dual2<Dual64, f64>>(Dims::NONE);
    e.visit::<f64, Dual<Dual2_64, f64>>(Dims::NONE);
    e.visit::<f64, HyperDual<Dual64, f64>>(Dims::NONE);
    e.visit::<f64, DualVec<Dual64, f64, Const<2>>>(Dims::n(2));
    e.visit::<f64, Dual<DualSVec64<2>, f64>>(Dims::n(2));
    e.visit::<f64, Dual2Vec<Dual64, f64, Const<2>>>(Dims::n(2));
    e.visit::<f64, HyperDualVec<Dual64, f64, Const<1>, Const<2>>>(Dims::mn(1, 2));
    if thorough {
        e.visit::<f64, Dual3<Dual64, f64>>(Dims::NONE);
        e.visit::<f64, HyperHyperDual<Dual64, f64>>(Dims::NONE);
        e.visit::<f64, Dual<Dual<Dual64, f64>, f64>>(Dims::NONE);
        e.visit::<f64, HyperDualVec<Dual64, f64, Const<2>, Const<2>>>(Dims::mn(2, 2));
        e.visit::<f64, Dual2Vec<f64, f64, Const<4>>>(Dims::n(4));
        e.visit::<f64, DualVec<f64, f64, Const<6>>>(Dims::n(6));
        e.visit::<f64, HyperDualVec<f64, f64, Dyn, Dyn>>(Dims::mn(4, 3));
        e.visit::<f64, Dual2Vec<Dual64, f64, Dyn>>(Dims::n(2));
    }
}

/// vector types whose entries are vector types themselves (the layouts of the universe do not model
/// them): the rendering of the outer number is the grammar applied to the renderings of the inner ones
fn vector_in_vector(st: &mut Stats) {
    use nalgebra::{Const, DVector, Dyn, SVector};
    use num_dual::*;
    let inner = |re: f64, g: Option<[f64; 2]>| DualSVec64::<2>::new(re, g.map(|g| Derivative::some(SVector::from(g))).unwrap_or_else(Derivative::none));
    let cases: Vec<(DualSVec64<2>, Option<[DualSVec64<2>; 2]>)> = vec![
        (inner(1.5, Some([0.25, -2.0])), Some([inner(-0.5, Some([3.0, 4.0])), inner(2.0, None)])),
        (inner(1.5, None), Some([inner(0.0, Some([1.0, 0.0])), inner(-0.0, Some([0.0, 1.0]))])),
        (inner(-3.0, Some([1.0, 1.0])), None),
    ];
    for (k, (re, eps)) in cases.into_iter().enumerate() {
        let x = DualVec::<DualSVec64<2>, f64, Const<2>>::new(re.clone(), eps.clone().map(|e| Derivative::some(SVector::from(e))).unwrap_or_else(Derivative::none));
        let xd = DualVec::<DualSVec64<2>, f64, Dyn>::new(re.clone(), eps.clone().map(|e| Derivative::some(DVector::from_vec(e.to_vec()))).unwrap_or_else(Derivative::none));
        let want = match &eps {
            Some(e) => format!("{} + [{}, {}]ε", re, e[0], e[1]),
            None => format!("{}", re),
        };
        for (name, got) in [("DualVec<DualSVec64<2>,2>", guarded(|| x.to_string())), ("DualVec<DualSVec64<2>,Dyn>", guarded(|| xd.to_string()))] {
            st.evaluations += 1;
            st.transitions += 1;
            st.state(hash64(&("vector-in-vector", name, k)));
            st.nontrivial(hash64(&("vector-in-vector", name, k)));
            match got {
                Ok(g) if g == want => {}
                Ok(g) => st.violation(Violation { sig: format!("display {name} nested grammar"), case: json!({"type": name, "case": k}), what: format!("rendered {g:?}, the grammar applied to the inner renderings gives {want:?}") }),
                Err(m) => st.violation(Violation { sig: format!("display {name} panic"), case: json!({"type": name, "case": k}), what: format!("panicked: {m}") }),
            }
        }
    }
}

fn main() {
    quiet_panics();
    let cli = cli();
    let start = Instant::now();
    let mut stats = Stats::default();
    let mut e = Enumerate { stats: &mut stats, shapes: vec![] };
    let thorough = cli.mode == Mode::Thorough || cli.replay.is_some();
    if let Err(m) = guarded(|| run_all(&mut e, thorough)) {
        e.stats.violation(Violation { sig: "display panic".into(), case: json!({}), what: format!("panicked: {m}") });
    }
    vector_in_vector(e.stats);
    let shapes = std::mem::take(&mut e.shapes);
    if let Some(path) = &cli.replay {
        let v = read_replay(path);
        let sig = v["sig"].as_str().unwrap_or("");
        if let Some((n, viol)) = stats.violations.get(sig) {
            println!("replay: {sig}: {} ({n} cases)", viol.what);
            println!("VIOLATION property={PROP} replay={path}");
            std::process::exit(1);
        }
        println!("replay: property holds on this case");
        std::process::exit(0);
    }
    let rep = Report {
        property: PROP,
        mode: cli.mode,
        seed: cli.seed,
        start,
        rule: "every type of the universe (scalar over both widths; vector types static and dynamic with 1x1, 1xn, nx1, mxn and zero-length shapes; nested types) x ALL 2^k presence patterns x 8 shifts of the value alphabet {0, -0, 1, -1.5, 1e-7, 123456789.125, 1e21, 5e-324} through the parts (pairwise distinct values per part). Oracle: (1) an independent formatter of the documented grammar (real part, then ` + <part><symbol>` for every present part in declaration order, vectors as [a, b], absent parts omitted) must give the same string; (2) the numeric tokens of the string, in order, parse back to exactly the stored bits of the present components and their number equals the number of present components.".into(),
        assumptions: vec!["matrix-shaped parts are rendered by nalgebra; their numbers are checked as tokens in row-major order".into()],
        extra: json!({"types": shapes}),
        exhaustive: true,
        caps: vec![],
    };
    std::process::exit(finish(rep, stats));
}
