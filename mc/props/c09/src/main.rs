//! C09 — power functions are correct for every exponent.

use explore::*;
use harness::*;
use refmodel::DD;
use serde_json::{json, Value};
use std::time::Instant;
use subject::*;

const PROP: &str = "C09";

fn cfg() -> TolCfg<'static> {
    TolCfg { property: PROP, slack: 1.0, composite_rule: true, abs_kappa: None }
}

/// integer exponents: every n in [-2050, 2050] plus powers of two +-1 and the i32 overflow
/// thresholds of n(n-1) and n(n-1)(n-2)
fn int_exponents(mode: Mode) -> Vec<i32> {
    let lim = if mode == Mode::Quick { 260 } else { 2050 };
    let mut v: Vec<i32> = (-lim..=lim).collect();
    for k in 1..=30 {
        let p = 1i64 << k;
        for d in [-1i64, 0, 1] {
            let n = p + d;
            if n <= (1 << 30) {
                v.push(n as i32);
                v.push(-(n as i32));
            }
        }
    }
    for n in [1290, 1291, 1292, 1293, 2047, 2048, 2049, 46340, 46341, 46342, 46343, 65535, 65536, 65537] {
        v.push(n);
        v.push(-n);
    }
    v.sort();
    v.dedup();
    v
}

/// bases +-(1 +- 2^-j) such that |n ln b| stays moderate
fn bases_for(n: i32) -> Vec<f64> {
    let an = (n as f64).abs().max(1.0);
    let mut j = 1;
    while (1.0 + 2f64.powi(-j)).ln() * an > 24.0 {
        j += 1;
    }
    let d = 2f64.powi(-j);
    vec![1.0 + d, 1.0 - d, -(1.0 + d), -(1.0 - d)]
}

const POWF_EXP: &[f64] = &[0.0, 1.0, 2.0, 3.0, 4.0, 0.5, 1.5, 2.5, 3.5, -0.5, -1.0, -2.0, -2.5, 17.25, 300.5, 9.313225746154785e-10, -9.313225746154785e-10];

fn powf_exponents<F: Flt>() -> Vec<f64> {
    let mut v: Vec<f64> = POWF_EXP.to_vec();
    // both float neighbours (in F) of 0, 1, 2, 3
    for c in [1.0f64, 2.0, 3.0] {
        let b = F::from64(c).bits();
        v.push(F::from_bits64(b + 1).to64());
        v.push(F::from_bits64(b - 1).to64());
    }
    // within rounding of zero
    v.push(F::U / 4.0);
    v.push(-F::U / 4.0);
    // exponents at every scale of distance 2^-k from the special cases 0, 1, 2, 3: a shortcut whose
    // window is wider than "within rounding" evaluates these as the special case
    let mut k = 6;
    while k < F::PREC as i32 - 1 {
        for c in [0.0f64, 1.0, 2.0, 3.0] {
            for s in [1.0f64, -1.0] {
                let e = F::from64(c + s * 2f64.powi(-k)).to64();
                if e != c {
                    v.push(e);
                }
            }
        }
        k += 6;
    }
    v
}

struct Enumerate<'a> {
    mode: Mode,
    stats: &'a mut Stats,
    axes: Vec<Value>,
}

fn prog_check<F: Flt, D: Subject<F>>(d: Dims, l: &Layout, prog: &Program, name: &str, inputs: &[Parts<F>], st: &mut Stats) {
    st.evaluations += 1;
    st.transitions += prog.steps.len() as u64;
    let vals: Vec<Val> = inputs.iter().map(|p| Val::exact(p.to_jet::<DD>(l))).collect();
    let want = match prog.run_ref(&vals, F::U, 0.0) {
        Some(w) => w,
        None => {
            st.count("pruned_by_reference_domain", 1);
            return;
        }
    };
    let args: Vec<D> = inputs.iter().map(|p| D::build(d, p)).collect();
    let key = hash64(&(name, l.type_name.clone(), inputs.iter().map(|p| p.bits()).collect::<Vec<_>>()));
    st.state(key);
    let got = match guarded(|| prog.run_impl::<F, D>(&args).parts(d)) {
        Ok(g) => g,
        Err(m) => {
            st.violation(Violation {
                sig: format!("{name} {} panic", l.type_name),
                case: json!({"type": l.type_name, "dims": [d.m, d.n], "program": prog.describe(), "inputs": inputs.iter().map(parts_to_json).collect::<Vec<_>>()}),
                what: format!("panicked: {m}"),
            });
            return;
        }
    };
    st.outcome(hash64(&got.bits()));
    st.nontrivial(key);
    let cmp = compare_tol(l, &got, &want, None, 2.0);
    st.ratio(name, cmp.worst_ratio, || format!("{} slot {}", l.type_name, l.slots[cmp.worst_slot].name));
    if !cmp.ok {
        st.violation(Violation {
            sig: format!("{name} {} order{}", l.type_name, l.slot_degree(cmp.worst_slot)),
            case: json!({"type": l.type_name, "dims": [d.m, d.n], "program": prog.describe(), "inputs": inputs.iter().map(parts_to_json).collect::<Vec<_>>()}),
            what: format!("{}: slot {} got {:e} want {:e} tol {:e}", prog.describe(), l.slots[cmp.worst_slot].name, cmp.got, cmp.want, cmp.tol),
        });
    }
}

impl<'a> Visitor for Enumerate<'a> {
    fn visit<F: Flt, D: Subject<F>>(&mut self, d: Dims) {
        let l = D::layout(d);
        let c = cfg();
        // ---- powi
        let mut jobs = Vec::new();
        for n in int_exponents(self.mode) {
            for b in bases_for(n) {
                let bf = F::from64(b).to64();
                if bf == 1.0 || bf == -1.0 {
                    continue; // not representable in F: degenerates
                }
                jobs.push((Op::Powi(n), bf));
            }
            // bases +-1: exact values, parity of huge exponents (derivative parts n, n(n-1), ...)
            if (n as f64).abs().powi(3) < if F::PREC == 53 { 1e100 } else { 1e30 } {
                jobs.push((Op::Powi(n), -1.0));
                jobs.push((Op::Powi(n), 1.0));
            }
        }
        let n_powi = sweep_points::<F, D>(d, &l, &jobs, 2, &c, &exec_generic::<F, D>, self.stats);
        // bases +-1 are exact in every float width: the real part must be exactly (+-1)^n (the
        // rounding allowance of powi, which grows with |n|, must not hide a wrong parity)
        for n in int_exponents(self.mode) {
            for b in [-1.0f64, 1.0] {
                let p = few_assignments::<F>(&l, b, 1, 0).remove(0);
                let x = D::build(d, &p);
                self.stats.evaluations += 1;
                self.stats.transitions += 1;
                let want = if b < 0.0 && n % 2 != 0 { -1.0 } else { 1.0 };
                match guarded(|| x.powi(n).re()) {
                    Ok(r) if r.to64() == want => {}
                    Ok(r) => self.stats.violation(Violation {
                        sig: format!("powi-parity {} {}", l.type_name, if n.unsigned_abs() > (1 << 24) { "n>2^24" } else { "n<=2^24" }),
                        case: json!({"type": l.type_name, "base": b, "n": n}),
                        what: format!("({b})^{n} has real part {:e}, exact value {want}", r.to64()),
                    }),
                    Err(m) => self.stats.violation(Violation { sig: format!("powi-parity {} panic", l.type_name), case: json!({"type": l.type_name, "base": b, "n": n}), what: format!("panicked: {m}") }),
                }
            }
        }
        // ---- powf
        let mut jobs = Vec::new();
        for p in powf_exponents::<F>() {
            for &b in POS {
                let pf = F::from64(p).to64();
                let r = p * b.ln();
                if r.abs() > 60.0 {
                    continue;
                }
                jobs.push((Op::Powf(pf), b));
            }
        }
        // huge exponents on bases below one: the power and every derivative underflow to zero
        for p in if F::PREC == 53 { [1e103, 1e155, 1e300] } else { [1e13, 1e20, 1e38] } {
            for b in [0.5, 0.875] {
                jobs.push((Op::Powf(F::from64(p).to64()), b));
            }
        }
        // integer-valued exponents beyond the i32 range (a cast to i32 saturates or wraps) on bases
        // 1 +- 2^-33, so that the power stays moderate; f64 only (the bases are 1 in f32)
        if F::PREC == 53 {
            for p in [2147483648.0, 4294967298.0, 3e9, -3e9, 1e12, -4294967296.0] {
                for b in [1.0 + 2f64.powi(-33), 1.0 - 2f64.powi(-33)] {
                    if ((p * (b.ln())) as f64).abs() < 200.0 {
                        jobs.push((Op::Powf(p), b));
                    }
                }
            }
        }
        // small and large bases
        for p in [0.5, 1.5, -1.5, 3.0] {
            for b in [1.2345678e-6, 1048576.0, 1e-12] {
                if F::PREC == 53 || b > 1e-7 {
                    jobs.push((Op::Powf(p), b));
                }
            }
        }
        let n_powf = sweep_points::<F, D>(d, &l, &jobs, 2, &c, &exec_generic::<F, D>, self.stats);
        // ---- powd: dual exponents, full tensor grid of both operands within a budget
        let mut list: Vec<(Op, Vec<f64>)> = Vec::new();
        for &b in &[0.3125, 0.875, 1.25, 2.5, 17.0] {
            for &e in &[-1.5, 0.0, 0.5, 1.0, 2.0, 3.0] {
                list.push((Op::Powd, vec![b, e]));
            }
        }
        // small and large bases (the logarithm of the base must be accurate there too)
        for &b in &[1.2345678e-6, 1e-12, 1048576.0] {
            for &e in &[-1.5, 0.5, 2.0] {
                if F::PREC == 53 || b > 1e-7 {
                    list.push((Op::Powd, vec![b, e]));
                }
            }
        }
        let budget = if self.mode == Mode::Quick { 600 } else { 60_000 };
        let info = sweep_many::<F, D>(d, &l, &list, budget, &c, &exec_generic::<F, D>, self.stats);
        // ---- mutual agreement: repeated multiplication / division, exp(n ln x), powf(n), powd(n)
        let mut progs: Vec<(String, Program, f64)> = Vec::new();
        for n in 2..=16usize {
            // x * x * ... * x
            let mut steps = vec![Step { op: Op::Mul, args: vec![0, 0] }];
            for k in 2..n {
                steps.push(Step { op: Op::Mul, args: vec![k - 1, 0] });
            }
            progs.push((format!("repmul{n}"), Program { n_inputs: 1, steps: steps.clone() }, n as f64));
            let last = steps.len();
            let mut s2 = steps.clone();
            s2.push(Step { op: Op::Recip, args: vec![last] });
            progs.push((format!("repdiv{n}"), Program { n_inputs: 1, steps: s2 }, -(n as f64)));
        }
        for n in [-7i32, -2, -1, 2, 3, 5, 16] {
            progs.push((
                format!("expnln{n}"),
                Program { n_inputs: 1, steps: vec![Step { op: Op::Ln, args: vec![0] }, Step { op: Op::MulF(n as f64), args: vec![1] }, Step { op: Op::Exp, args: vec![2] }] },
                n as f64,
            ));
        }
        let bases = [0.3125, 0.875, 1.25, 2.5];
        let l2 = &l;
        let progs2 = &progs;
        let total = progs.len() * bases.len();
        par_for(total, self.stats, |i, st| {
            let (name, prog, n) = &progs2[i / bases.len()];
            let b = bases[i % bases.len()];
            for p in few_assignments::<F>(l2, b, 2, 0) {
                prog_check::<F, D>(d, l2, prog, name, &[p.clone()], st);
                // the same power through the three power functions (each against the reference)
                run_tol::<F, D>(d, l2, &Case { op: Op::Powi(*n as i32), args: vec![p.clone()] }, &cfg(), &exec_generic::<F, D>, st);
                run_tol::<F, D>(d, l2, &Case { op: Op::Powf(*n), args: vec![p.clone()] }, &cfg(), &exec_generic::<F, D>, st);
                let e = Parts::<F> { vals: (0..l2.nslots()).map(|k| F::from64(if k == 0 { *n } else { 0.0 })).collect(), present: vec![false; l2.ngroups()] };
                run_tol::<F, D>(d, l2, &Case { op: Op::Powd, args: vec![p.clone(), e] }, &cfg(), &exec_generic::<F, D>, st);
            }
        });
        self.axes.push(json!({"type": l.type_name, "powi_cases": n_powi, "powf_cases": n_powf, "powd_cases": info.cases, "powd_full_grid": info.full_grid, "agreement_programs": total}));
    }
}

fn universe(tier: Tier, v: &mut impl Visitor) {
    // the plain-float instances have their own powi / powf / powd
    v.visit::<f64, f64>(Dims::NONE);
    v.visit::<f32, f32>(Dims::NONE);
    scalar_types(v);
    v.visit::<f64, num_dual::DualSVec64<2>>(Dims::n(2));
    v.visit::<f64, num_dual::Dual2SVec64<2>>(Dims::n(2));
    v.visit::<f64, num_dual::HyperDualSVec64<2, 2>>(Dims::mn(2, 2));
    v.visit::<f64, num_dual::Dual2<num_dual::Dual64, f64>>(Dims::NONE);
    if tier == Tier::Thorough {
        v.visit::<f64, num_dual::Dual3<num_dual::Dual64, f64>>(Dims::NONE);
        v.visit::<f64, num_dual::DualDVec64>(Dims::n(3));
        v.visit::<f64, num_dual::Dual2DVec64>(Dims::n(2));
        v.visit::<f64, num_dual::HyperDualDVec64>(Dims::mn(2, 1));
        v.visit::<f32, num_dual::Dual2SVec32<2>>(Dims::n(2));
        v.visit::<f64, num_dual::Dual<num_dual::Dual2_64, f64>>(Dims::NONE);
    }
}

fn main() {
    quiet_panics();
    let cli = cli();
    if let Some(path) = &cli.replay {
        run_replay_tol(PROP, path, cfg(), &|f| universe(Tier::Thorough, f));
    }
    let start = Instant::now();
    let mut stats = Stats::default();
    let mut e = Enumerate { mode: cli.mode, stats: &mut stats, axes: vec![] };
    let tier = if cli.mode == Mode::Quick { Tier::Quick } else { Tier::Thorough };
    universe(tier, &mut e);
    let axes = std::mem::take(&mut e.axes);
    let rep = Report {
        property: PROP,
        mode: cli.mode,
        seed: cli.seed,
        start,
        rule: "powi: every n in [-2050,2050] (quick: [-260,260]) and +-2^k, +-(2^k+-1) up to 2^30 and the i32 overflow thresholds of n(n-1), n(n-1)(n-2), four bases +-(1+-2^-j) per exponent with |n ln b| <= 24; powf: 17 exponents incl. 0,1,2,3, both float neighbours of 1,2,3, +-tiny and c +- 2^-k (k = 6, 12, ... below the precision) around c = 0,1,2,3, x positive base grid; powd: dual exponents on the full tensor grid of both operands; mutual agreement of repeated multiplication/division (n <= 16), exp(n ln x), powi, powf, powd at the same operands; each x {2 generic non-unit part assignments, unit seeding}".into(),
        assumptions: vec![
            "powi tolerance grows with |n|: plain-float powi is repeated squaring whose relative error is up to |n| u / 2 (kappa = 128 + 4|n|)".into(),
            "powf tolerance includes the conditioning with respect to the rounded exponent: + kappa u |p| |d c_k/dp| |N|^k".into(),
            "bases and exponents are enumerated grids, not all floats".into(),
        ],
        extra: json!({"axes": axes}),
        exhaustive: true,
        caps: vec![],
    };
    std::process::exit(finish(rep, stats));
}
