//! C07 — absent derivative parts behave exactly like all-zero derivative parts.
//! (a) depth 1: every operation x alpha-operands x all 2^k encodings (absent / explicit zeros);
//! (b) histories: breadth-first exploration of compound-assignment sequences on an accumulator,
//!     states = alpha-classes with the set of concrete encodings that reach them (bisimulation).

use explore::*;
use harness::*;
use refmodel::{Bits, Exact, Jet};
use serde_json::{json, Value};
use std::collections::{BTreeSet, HashSet};
use std::time::Instant;
use subject::*;

const PROP: &str = "C07";

/// an operand under the abstraction: values per slot, with the groups that are entirely zero
#[derive(Clone, Debug)]
struct Alpha<F> {
    vals: Vec<F>,
    zero_groups: Vec<usize>,
}

fn alpha_alphabet<F: Flt>(l: &Layout, reals: &[f64], salt: usize) -> Vec<Alpha<F>> {
    let g = l.ngroups();
    let mut out = Vec::new();
    for &r in reals {
        for pat in 0..(1usize << g) {
            // bit k set => group k is all-zero
            let mut vals = Vec::with_capacity(l.nslots());
            for (i, s) in l.slots.iter().enumerate() {
                let zero = s.groups.iter().any(|k| pat & (1 << k) != 0);
                vals.push(F::from64(if i == 0 { r } else if zero { 0.0 } else { small_value(i + salt, 1) }));
            }
            out.push(Alpha { vals, zero_groups: (0..g).filter(|k| pat & (1 << k) != 0).collect() });
        }
    }
    out
}

/// all encodings of an alpha-operand: every zero group absent or explicit zeros
fn encodings<F: Flt>(l: &Layout, a: &Alpha<F>) -> Vec<Parts<F>> {
    let k = a.zero_groups.len();
    (0..(1usize << k))
        .map(|e| {
            let mut present = vec![true; l.ngroups()];
            for (j, g) in a.zero_groups.iter().enumerate() {
                if e & (1 << j) != 0 {
                    present[*g] = false;
                }
            }
            Parts { vals: a.vals.clone(), present }
        })
        .collect()
}

fn alpha_vals<F: Flt>(l: &Layout, p: &Parts<F>) -> Vec<F> {
    (0..l.nslots()).map(|i| p.alpha(l, i)).collect()
}

fn num_eq<F: Flt>(a: F, b: F) -> bool {
    a == b || (a.is_nan() && b.is_nan())
}

fn canon_bits<F: Flt>(v: F) -> u64 {
    if v == F::zero() {
        0
    } else if v.is_nan() {
        u64::MAX
    } else {
        v.bits()
    }
}

fn is_exact_op(op: Op) -> bool {
    use Op::*;
    matches!(
        op.canonical(),
        Add | Sub | Neg | Mul | AddF(_) | SubF(_) | MulF(_) | MulAdd | Sum(_) | Product(_) | Abs | Powi(0..=3)
    )
}

/// exact reference on alpha operands, if no rounding can occur
fn exact_reference<F: Flt>(l: &Layout, op: Op, args: &[Vec<F>]) -> Option<Jet<Exact>> {
    if !is_exact_op(op) {
        return None;
    }
    if args.iter().any(|a| a.iter().any(|v| !v.is_finite())) {
        return None;
    }
    let mk = |a: &Vec<F>| Parts { vals: a.clone(), present: vec![true; l.ngroups()] };
    let bj: Vec<Jet<Bits>> = args.iter().map(|a| mk(a).to_jet::<Bits>(l)).collect();
    let w = apply_exact(op, &bj, &tay_bits).c.iter().map(|b| b.width()).max().unwrap_or(0);
    if w > F::PREC - 3 {
        return None;
    }
    let ej: Vec<Jet<Exact>> = args.iter().map(|a| mk(a).to_jet::<Exact>(l)).collect();
    Some(apply_exact(op, &ej, &tay_exact))
}

/// run one alpha-tuple through all encodings; returns the alpha-result and the set of result presences
fn bisim_step<F: Flt, D: Subject<F>>(
    d: Dims,
    l: &Layout,
    op: Op,
    encs: &[Vec<Parts<F>>],
    path: &dyn Fn() -> Value,
    st: &mut Stats,
) -> Option<(Vec<F>, BTreeSet<Vec<bool>>)> {
    // cartesian product of encodings
    let sizes: Vec<usize> = encs.iter().map(|e| e.len()).collect();
    let total: usize = sizes.iter().product();
    let mut first: Option<Vec<F>> = None;
    let mut pres = BTreeSet::new();
    for idx in 0..total {
        let mut rem = idx;
        let mut parts = Vec::with_capacity(encs.len());
        for (k, e) in encs.iter().enumerate() {
            parts.push(e[rem % sizes[k]].clone());
            rem /= sizes[k];
        }
        let args: Vec<D> = parts.iter().map(|p| D::build(d, p)).collect();
        st.evaluations += 1;
        st.transitions += 1;
        st.state(hash64(&(l.type_name.as_str(), format!("{op:?}"), parts.iter().map(|p| (p.bits(), p.present.clone())).collect::<Vec<_>>())));
        let res = match guarded(|| apply_impl::<F, D>(op, &args).parts(d)) {
            Ok(r) => r,
            Err(m) => {
                st.violation(Violation {
                    sig: format!("{} {} panic", op.name(), l.type_name),
                    case: json!({"path": path(), "type": l.type_name, "dims": [d.m, d.n], "op": op_to_json(op), "args": parts.iter().map(parts_to_json).collect::<Vec<_>>()}),
                    what: format!("panicked: {m}"),
                });
                return None;
            }
        };
        let av = alpha_vals(l, &res);
        st.outcome(hash64(&(av.iter().map(|v| canon_bits(*v)).collect::<Vec<_>>(), res.present.clone())));
        match &first {
            None => first = Some(av),
            Some(f0) => {
                if let Some(i) = (0..av.len()).find(|i| !num_eq(av[*i], f0[*i])) {
                    st.violation(Violation {
                        sig: format!("{} {} encodings-disagree order{}", op.name(), l.type_name, l.slot_degree(i)),
                        case: json!({"path": path(), "type": l.type_name, "dims": [d.m, d.n], "op": op_to_json(op), "args": parts.iter().map(parts_to_json).collect::<Vec<_>>()}),
                        what: format!(
                            "slot {}: {:e} with the all-explicit encoding but {:e} with presence {:?}",
                            l.slots[i].name,
                            f0[i].to64(),
                            av[i].to64(),
                            parts.iter().map(|p| p.present.clone()).collect::<Vec<_>>()
                        ),
                    });
                    return None;
                }
            }
        }
        pres.insert(res.present);
    }
    if total > 1 {
        st.sample(|| json!({"path": path(), "type": l.type_name, "op": op_to_json(op), "alpha_operands": encs.iter().map(|e| parts_to_json(&e[0])).collect::<Vec<_>>(),
            "encodings_per_operand": encs.iter().map(|e| e.len()).collect::<Vec<_>>(), "check": "alpha(result) identical for all encodings"}));
        st.count("alpha_tuples_reached_through_several_encodings", 1);
        st.nontrivial(hash64(&(l.type_name.as_str(), format!("{op:?}"), encs.iter().map(|e| e[0].bits()).collect::<Vec<_>>())));
    } else {
        st.count("alpha_tuples_with_a_single_encoding", 1);
    }
    let f0 = first?;
    // exact reference
    let alphas: Vec<Vec<F>> = encs.iter().map(|e| alpha_vals(l, &e[0])).collect();
    if let Some(want) = exact_reference::<F>(l, op, &alphas) {
        st.count("exact_reference_checked", 1);
        for (i, s) in l.slots.iter().enumerate() {
            if !want.get(s.monos[0]).eq_float(f0[i].to64()) {
                st.violation(Violation {
                    sig: format!("{} {} exact order{}", op.name(), l.type_name, l.slot_degree(i)),
                    case: json!({"path": path(), "type": l.type_name, "dims": [d.m, d.n], "op": op_to_json(op), "args": encs.iter().map(|e| parts_to_json(&e[0])).collect::<Vec<_>>()}),
                    what: format!("slot {} got {:e} want {} exactly", s.name, f0[i].to64(), want.get(s.monos[0])),
                });
                return None;
            }
        }
    }
    Some((f0, pres))
}

struct Enumerate<'a> {
    mode: Mode,
    stats: &'a mut Stats,
    axes: Vec<Value>,
    classes_total: u64,
}

fn depth1_ops() -> Vec<Op> {
    use Op::*;
    vec![
        Add, Sub, Mul, Div, Neg, Recip, Inv, Powi(-2), Powi(0), Powi(1), Powi(2), Powi(3), Powf(0.0), Powf(1.0), Powf(2.0), Powf(2.5), Sqrt, Cbrt,
        Exp, Ln, Sin, Cos, Tan, Atan, Tanh, SphJ0, SphJ1, Abs, Signum, AddF(0.75), SubF(0.75), MulF(-1.5), DivF(2.0), AddA, SubA, MulA, DivA,
        AddAF(0.75), SubAF(0.75), MulAF(-1.5), DivAF(2.0), AddRef, SubRef, MulRef, DivRef, Atan2, Powd, AbsSub, Sum(2), Product(2), MulAdd,
        Sum(3), Product(3),
    ]
}

#[derive(Clone)]
struct Class<F> {
    alpha: Vec<F>,
    presences: BTreeSet<Vec<bool>>,
    path: Vec<String>,
}

impl<'a> Visitor for Enumerate<'a> {
    fn visit<F: Flt, D: Subject<F>>(&mut self, d: Dims) {
        let l = D::layout(d);
        let l = &l;
        if l.ngroups() == 0 {
            return;
        }
        // ---------------- (a) depth 1
        let a2 = alpha_alphabet::<F>(l, &[2.0, -0.5], 0);
        // the second operand also takes the real part 1 (is_one shortcuts of products and quotients)
        let b2 = alpha_alphabet::<F>(l, &[2.0, -0.5, 1.0], l.nslots());
        let c1 = alpha_alphabet::<F>(l, &[0.5], 2 * l.nslots());
        let ops = depth1_ops();
        let mut jobs: Vec<(Op, Vec<usize>)> = Vec::new();
        for op in &ops {
            match op.arity() {
                1 => {
                    for i in 0..a2.len() {
                        jobs.push((*op, vec![i]));
                    }
                }
                2 => {
                    for i in 0..a2.len() {
                        for j in 0..b2.len() {
                            jobs.push((*op, vec![i, j]));
                        }
                    }
                }
                _ => {
                    for i in 0..a2.len() {
                        for j in 0..b2.len() {
                            for k in 0..c1.len() {
                                jobs.push((*op, vec![i, j, k]));
                            }
                        }
                    }
                }
            }
        }
        let (a2r, b2r, c1r) = (&a2, &b2, &c1);
        let jobs_ref = &jobs;
        par_for(jobs.len(), self.stats, |n, st| {
            let (op, idx) = &jobs_ref[n];
            let alphas: Vec<&Alpha<F>> = idx.iter().enumerate().map(|(k, i)| match k {
                0 => &a2r[*i],
                1 => &b2r[*i],
                _ => &c1r[*i],
            }).collect();
            let re: Vec<f64> = alphas.iter().map(|a| a.vals[0].to64()).collect();
            if !op.in_domain(&re) || (matches!(op, Op::Sqrt | Op::Ln | Op::Powf(_) | Op::Powd) && re[0] <= 0.0) {
                return;
            }
            let encs: Vec<Vec<Parts<F>>> = alphas.iter().map(|a| encodings(l, a)).collect();
            let path = || json!([]);
            bisim_step::<F, D>(d, l, *op, &encs, &path, st);
        });
        let depth1_jobs = jobs.len();
        // ---------------- (b) histories
        let max_depth = if self.mode == Mode::Quick { 3 } else { 4 };
        let ys = alpha_alphabet::<F>(l, &[2.0], l.nslots());
        let hist_ops: Vec<(Op, bool, bool)> = vec![
            // (op, takes y, accumulator is the SECOND argument)
            (Op::AddA, true, false),
            (Op::SubA, true, false),
            (Op::MulA, true, false),
            (Op::DivA, true, false),
            (Op::AddAF(0.75), false, false),
            (Op::SubAF(0.75), false, false),
            (Op::MulAF(-1.5), false, false),
            (Op::DivAF(2.0), false, false),
            (Op::Sub, true, true),
            (Op::Div, true, true),
            (Op::Neg, false, false),
            (Op::Recip, false, false),
            (Op::Sqrt, false, false),
        ];
        // initial classes: every alpha accumulator with the set of ALL its encodings
        let mut frontier: Vec<Class<F>> = alpha_alphabet::<F>(l, &[2.0, -0.5], 0)
            .into_iter()
            .enumerate()
            .map(|(k, a)| {
                let presences = encodings(l, &a).into_iter().map(|p| p.present).collect();
                Class { alpha: a.vals, presences, path: vec![format!("acc{k:02}")] }
            })
            .collect();
        let mut seen: HashSet<u64> = HashSet::new();
        let key = |c: &Class<F>, depth: usize| hash64(&(depth, c.alpha.iter().map(|v| canon_bits(*v)).collect::<Vec<_>>(), c.presences.iter().cloned().collect::<Vec<_>>()));
        for c in &frontier {
            seen.insert(key(c, 0));
        }
        let mut classes = frontier.len() as u64;
        let cap = if self.mode == Mode::Quick { 1_500 } else { 30_000 };
        let mut capped = false;
        for depth in 1..=max_depth {
            let fr = &frontier;
            let ho = &hist_ops;
            let ysr = &ys;
            let next = std::sync::Mutex::new(Vec::<Class<F>>::new());
            let nt = fr.len() * ho.len();
            par_for(nt, self.stats, |n, st| {
                let c = &fr[n / ho.len()];
                let (op, takes_y, acc_second) = ho[n % ho.len()];
                let acc_encs: Vec<Parts<F>> = c.presences.iter().map(|p| Parts { vals: c.alpha.clone(), present: p.clone() }).collect();
                let ylist: Vec<Option<&Alpha<F>>> = if takes_y { ysr.iter().map(Some).collect() } else { vec![None] };
                for (yi, y) in ylist.iter().enumerate() {
                    let mut encs: Vec<Vec<Parts<F>>> = vec![acc_encs.clone()];
                    if let Some(y) = y {
                        if acc_second {
                            encs.insert(0, encodings(l, y));
                        } else {
                            encs.push(encodings(l, y));
                        }
                    }
                    let re: Vec<f64> = encs.iter().map(|e| e[0].vals[0].to64()).collect();
                    if !op.in_domain(&re) || (op == Op::Sqrt && re[0] <= 0.0) || re.iter().any(|r| !r.is_finite() || r.abs() > 1e100 || (r.abs() < 1e-100 && *r != 0.0)) {
                        continue;
                    }
                    let mut p2 = c.path.clone();
                    p2.push(format!("{}{}", op.name(), if y.is_some() { format!("[y{yi}{}]", if acc_second { ",acc" } else { "" }) } else { String::new() }));
                    let pj = p2.clone();
                    let start_alpha = c.alpha.clone();
                    let path = move || json!({"history": pj, "accumulator_bits_before_last_step": start_alpha.iter().map(|v| format!("{:016x}", v.bits())).collect::<Vec<_>>()});
                    if let Some((alpha, presences)) = bisim_step::<F, D>(d, l, op, &encs, &path, st) {
                        st.max_depth = st.max_depth.max(depth as u64);
                        next.lock().unwrap().push(Class { alpha, presences, path: p2 });
                    }
                }
            });
            let mut nx = next.into_inner().unwrap();
            // deterministic order, then de-duplicate
            nx.sort_by(|a, b| a.path.cmp(&b.path));
            let mut fresh = Vec::new();
            for c in nx {
                if c.alpha.iter().any(|v| !v.is_finite()) {
                    continue;
                }
                if seen.insert(key(&c, depth)) {
                    fresh.push(c);
                }
            }
            classes += fresh.len() as u64;
            if depth < max_depth && fresh.len() > cap {
                // keep the classes with the most encodings first (they check the most)
                fresh.sort_by(|a, b| b.presences.len().cmp(&a.presences.len()).then(a.path.cmp(&b.path)));
                fresh.truncate(cap);
                capped = true;
            }
            frontier = fresh;
            if frontier.is_empty() {
                break;
            }
        }
        self.classes_total += classes;
        self.axes.push(json!({"type": l.type_name, "groups": l.ngroups(), "depth1_alpha_tuples": depth1_jobs, "history_depth": max_depth, "alpha_classes": classes, "frontier_capped": capped}));
    }
}

/// conversions: a checked / unchecked narrowing (and the identity conversion) must treat an absent
/// part exactly like explicit zeros
macro_rules! conv_bisim {
    ($st:expr, $sup:ty, $sub:ty, $fsub:ty, $d:expr) => {{
        use simba::scalar::SupersetOf;
        let d: Dims = $d;
        let lp = <$sup as Subject<f64>>::layout(d);
        let ls = <$sub as Subject<$fsub>>::layout(d);
        for a in alpha_alphabet::<f64>(&lp, &[2.0, -0.5], 0) {
            let encs = encodings(&lp, &a);
            let mut first: Option<(bool, bool, Vec<f64>, Vec<f64>)> = None;
            for p in &encs {
                let x: $sup = <$sup as Subject<f64>>::build(d, p);
                $st.evaluations += 3;
                $st.transitions += 3;
                $st.state(hash64(&(lp.type_name.as_str(), "convert", ls.type_name.as_str(), p.bits(), p.present.clone())));
                let member = <$sup as SupersetOf<$sub>>::is_in_subset(&x);
                let checked: Option<$sub> = <$sup as SupersetOf<$sub>>::to_subset(&x);
                let unchecked: $sub = <$sup as SupersetOf<$sub>>::to_subset_unchecked(&x);
                let up = <$sub as Subject<$fsub>>::parts(&unchecked, d);
                let uv: Vec<f64> = (0..ls.nslots()).map(|i| up.alpha(&ls, i) as f64).collect();
                let cv: Vec<f64> = match &checked {
                    Some(c) => {
                        let cp = <$sub as Subject<$fsub>>::parts(c, d);
                        (0..ls.nslots()).map(|i| cp.alpha(&ls, i) as f64).collect()
                    }
                    None => vec![],
                };
                let cur = (member, checked.is_some(), uv, cv);
                match &first {
                    None => first = Some(cur),
                    Some(f0) => {
                        if *f0 != cur {
                            $st.violation(Violation {
                                sig: format!("convert {} -> {} encodings-disagree", lp.type_name, ls.type_name),
                                case: json!({"type": lp.type_name, "target": ls.type_name, "value": parts_to_json(p)}),
                                what: format!("conversion of the encoding with presence {:?} gives (is_in_subset, is_some, unchecked parts, checked parts) = {:?}, the all-explicit encoding gives {:?}", p.present, cur, f0),
                            });
                            break;
                        }
                    }
                }
            }
            if encs.len() > 1 {
                $st.nontrivial(hash64(&(lp.type_name.as_str(), "convert", ls.type_name.as_str(), a.vals.iter().map(|v| v.to_bits()).collect::<Vec<_>>())));
            }
        }
    }};
}

/// conversions of a vector dual number to a plain float (simba's SupersetOf<f32 / f64>): membership,
/// the checked and the unchecked extraction must not depend on the encoding
macro_rules! conv_float_bisim {
    ($st:expr, $sup:ty, $fl:ty, $d:expr) => {{
        use simba::scalar::SupersetOf;
        let d: Dims = $d;
        let lp = <$sup as Subject<f64>>::layout(d);
        for a in alpha_alphabet::<f64>(&lp, &[2.0, -0.5, 0.0], 0) {
            let encs = encodings(&lp, &a);
            let mut first: Option<(bool, Option<u64>, u64, Option<u64>)> = None;
            for p in &encs {
                let x: $sup = <$sup as Subject<f64>>::build(d, p);
                $st.evaluations += 4;
                $st.transitions += 4;
                $st.state(hash64(&(lp.type_name.as_str(), "to-float", stringify!($fl), p.bits(), p.present.clone())));
                let member = <$sup as SupersetOf<$fl>>::is_in_subset(&x);
                let checked: Option<$fl> = <$sup as SupersetOf<$fl>>::to_subset(&x);
                let unchecked: $fl = <$sup as SupersetOf<$fl>>::to_subset_unchecked(&x);
                let tried: Option<$fl> = nalgebra::try_convert::<$sup, $fl>(x.clone());
                let cur = (member, checked.map(|v| (v as f64).to_bits()), (unchecked as f64).to_bits(), tried.map(|v| (v as f64).to_bits()));
                match &first {
                    None => first = Some(cur),
                    Some(f0) => {
                        if *f0 != cur {
                            $st.violation(Violation {
                                sig: format!("convert {} -> {} encodings-disagree", lp.type_name, stringify!($fl)),
                                case: json!({"type": lp.type_name, "target": stringify!($fl), "value": parts_to_json(p)}),
                                what: format!("conversion to {} of the encoding with presence {:?} gives (is_in_subset, to_subset, to_subset_unchecked, try_convert) = {:?}, the all-explicit encoding gives {:?}", stringify!($fl), p.present, cur, f0),
                            });
                            break;
                        }
                    }
                }
            }
            if encs.len() > 1 {
                $st.nontrivial(hash64(&(lp.type_name.as_str(), "to-float", stringify!($fl), a.vals.iter().map(|v| v.to_bits()).collect::<Vec<_>>())));
            }
        }
    }};
}

/// nalgebra's field interface on the vector types: every method must give the same result for every
/// encoding of the same alpha-operands
macro_rules! field_bisim {
    ($st:expr, $ty:ty, $f:ty, $d:expr) => {{
        use nalgebra::{ComplexField, RealField};
        type D = $ty;
        let d: Dims = $d;
        let l = <D as Subject<$f>>::layout(d);
        let xs = alpha_alphabet::<$f>(&l, &[2.0, -0.5, 0.1], 0);
        // the second operand also takes the real parts of the first: ties decide min / max / clamp
        let ys = alpha_alphabet::<$f>(&l, &[1.5, -3.0, 2.0, -0.5, 10.0], l.nslots());
        type M = (&'static str, fn(D, D) -> D);
        let methods: Vec<M> = vec![
            ("powf", |a, b| ComplexField::powf(a, b)),
            ("powc", |a, b| ComplexField::powc(a, b)),
            ("log", |a, b| ComplexField::log(a, b)),
            ("hypot", |a, b| ComplexField::hypot(a, b)),
            ("scale", |a, b| ComplexField::scale(a, b)),
            ("unscale", |a, b| ComplexField::unscale(a, b)),
            ("mul_add", |a, b| ComplexField::mul_add(a.clone(), b, a)),
            // a constant addend: x * y - 1 with real parts whose product rounds (0.1 * 10): a fused and a
            // two-step evaluation differ in the last bit, so the real part shows which path an encoding took
            // in-place overwrite: afterwards the receiver is the source, whatever it held before
            ("clone_from", |a, b| {
                let mut r = a;
                r.clone_from(&b);
                r
            }),
            ("mul_add(x,y,-1)", |a, b| ComplexField::mul_add(a, b, <D as From<$f>>::from(-1.0))),
            ("atan2", |a, b| RealField::atan2(a, b)),
            ("min", |a, b| RealField::min(a, b)),
            ("max", |a, b| RealField::max(a, b)),
            ("copysign", |a, b| RealField::copysign(a, b)),
            ("clamp", |a, b| RealField::clamp(a.clone(), b.clone(), RealField::max(a, b))),
            ("recip", |a, _| ComplexField::recip(a)),
            ("sqrt", |a, _| ComplexField::sqrt(a)),
            ("sinc", |a, _| ComplexField::sinc(a)),
            ("signum", |a, _| ComplexField::signum(a)),
            ("modulus", |a, _| ComplexField::modulus(a)),
            ("to_polar.1", |a, _| ComplexField::to_polar(a).1),
            ("exp_m1", |a, _| ComplexField::exp_m1(a)),
            ("tanh", |a, _| ComplexField::tanh(a)),
            // the remaining unary methods of the interface (a hand-expanded method may treat an
            // absent part differently from the operator expression it replaces)
            ("modulus_squared", |a, _| ComplexField::modulus_squared(a)),
            ("norm1", |a, _| ComplexField::norm1(a)),
            ("abs", |a, _| ComplexField::abs(a)),
            ("real", |a, _| ComplexField::real(a)),
            ("conjugate", |a, _| ComplexField::conjugate(a)),
            ("exp", |a, _| ComplexField::exp(a)),
            ("exp2", |a, _| ComplexField::exp2(a)),
            ("ln_1p", |a, _| ComplexField::ln_1p(a.clone() * a)),
            ("ln(x^2)", |a, _| ComplexField::ln(a.clone() * a)),
            ("sin", |a, _| ComplexField::sin(a)),
            ("cos", |a, _| ComplexField::cos(a)),
            ("tan", |a, _| ComplexField::tan(a)),
            ("sin_cos.0", |a, _| ComplexField::sin_cos(a).0),
            ("sin_cos.1", |a, _| ComplexField::sin_cos(a).1),
            ("sinh", |a, _| ComplexField::sinh(a)),
            ("cosh", |a, _| ComplexField::cosh(a)),
            ("sinh_cosh.1", |a, _| ComplexField::sinh_cosh(a).1),
            ("atan", |a, _| ComplexField::atan(a)),
            ("asinh", |a, _| ComplexField::asinh(a)),
            ("cbrt", |a, _| ComplexField::cbrt(a)),
            ("powi(3)", |a, _| ComplexField::powi(a, 3)),
            ("powi(-2)", |a, _| ComplexField::powi(a, -2)),
            ("sinhc", |a, _| ComplexField::sinhc(a)),
            ("cosc", |a, _| ComplexField::cosc(a)),
            ("to_exp.1", |a, _| ComplexField::to_exp(a).1),
            ("simd_modulus_squared", |a, _| simba::simd::SimdComplexField::simd_modulus_squared(a)),
            ("simd_mul_add", |a, b| simba::simd::SimdComplexField::simd_mul_add(a.clone(), b, a)),
            ("simd_abs", |a, _| simba::simd::SimdComplexField::simd_abs(a)),
        ];
        for (name, m) in &methods {
            for ax in &xs {
                for ay in &ys {
                    let ex = encodings(&l, ax);
                    let ey = encodings(&l, ay);
                    let mut first: Option<Vec<$f>> = None;
                    'enc: for px in &ex {
                        for py in &ey {
                            let (x, y): (D, D) = (<D as Subject<$f>>::build(d, px), <D as Subject<$f>>::build(d, py));
                            $st.evaluations += 1;
                            $st.transitions += 1;
                            $st.state(hash64(&(l.type_name.as_str(), *name, px.bits(), py.bits(), px.present.clone(), py.present.clone())));
                            let r = match guarded(|| <D as Subject<$f>>::parts(&m(x, y), d)) {
                                Ok(r) => r,
                                Err(e) => {
                                    $st.violation(Violation { sig: format!("field {name} {} panic", l.type_name), case: json!({"type": l.type_name, "method": name, "x": parts_to_json(px), "y": parts_to_json(py)}), what: format!("panicked: {e}") });
                                    break 'enc;
                                }
                            };
                            let av = alpha_vals(&l, &r);
                            match &first {
                                None => first = Some(av),
                                Some(f0) => {
                                    // outside the domain (NaN real part in every encoding) the derivative
                                    // parts are not compared: NaN * explicit zero is NaN, absent stays absent
                                    let upto = if f0[0].is_nan() && av[0].is_nan() { 1 } else { av.len() };
                                    if let Some(i) = (0..upto).find(|i| !num_eq(av[*i], f0[*i])) {
                                        $st.violation(Violation {
                                            sig: format!("field {name} {} encodings-disagree", l.type_name),
                                            case: json!({"type": l.type_name, "method": name, "x": parts_to_json(px), "y": parts_to_json(py)}),
                                            what: format!("{name}: slot {} is {:e} with the all-explicit encoding but {:e} with presence {:?} / {:?}", l.slots[i].name, f0[i] as f64, av[i] as f64, px.present, py.present),
                                        });
                                        break 'enc;
                                    }
                                }
                            }
                        }
                    }
                    if ex.len() * ey.len() > 1 {
                        $st.nontrivial(hash64(&(l.type_name.as_str(), *name, ax.vals.iter().map(|v| v.bits()).collect::<Vec<_>>(), ay.vals.iter().map(|v| v.bits()).collect::<Vec<_>>())));
                    }
                }
            }
        }
    }};
}

/// the operator forms of the public part type `Derivative` itself (the number types use only some
/// of them internally): every owned / borrowed / in-place form of + - neg, scaling by the inner
/// number, the outer products `&a * &b` and `a.tr_mul(&b)`, for every encoding of all-zero
/// operands, against plain nalgebra matrix arithmetic on the explicit matrices
fn derivative_operators(st: &mut Stats) {
    use nalgebra::{Const, Dyn, OMatrix, U1, U2};
    use num_dual::Derivative;
    type M21 = OMatrix<f64, U2, U1>;
    type M12 = OMatrix<f64, U1, U2>;
    type D21 = Derivative<f64, f64, U2, U1>;
    type D12 = Derivative<f64, f64, U1, U2>;
    let fail = |st: &mut Stats, form: &str, what: String| {
        st.violation(Violation { sig: format!("derivative-operator {form}"), case: json!({"form": form}), what });
    };
    // alpha values of the column operands a, b (2 x 1) and of the row operand c (1 x 2)
    let cols = [M21::new(0.0, 0.0), M21::new(0.75, -1.25), M21::new(2.5, -0.375)];
    let rows = [M12::new(0.0, 0.0), M12::new(1.625, -2.75)];
    // (value, is present)
    let encs21 = |m: &M21| -> Vec<(D21, bool)> { if m.iter().all(|v| *v == 0.0) { vec![(D21::none(), false), (D21::some(*m), true)] } else { vec![(D21::some(*m), true)] } };
    let encs12 = |m: &M12| -> Vec<(D12, bool)> { if m.iter().all(|v| *v == 0.0) { vec![(D12::none(), false), (D12::some(*m), true)] } else { vec![(D12::some(*m), true)] } };
    let al21 = |d: &D21| -> M21 { d.clone().unwrap_generic(Const::<2>, Const::<1>) };
    for am in &cols {
        for bm in &cols {
            for (a, pa) in encs21(am) {
                for (b, pb) in encs21(bm) {
                    let forms: Vec<(&str, D21, M21)> = vec![
                        ("a + b", a.clone() + b.clone(), am + bm),
                        ("a + &b", a.clone() + &b, am + bm),
                        ("&a + &b", &a + &b, am + bm),
                        ("a - b", a.clone() - b.clone(), am - bm),
                        ("a - &b", a.clone() - &b, am - bm),
                        ("&a - &b", &a - &b, am - bm),
                        ("a += b", { let mut r = a.clone(); r += b.clone(); r }, am + bm),
                        ("a -= b", { let mut r = a.clone(); r -= b.clone(); r }, am - bm),
                        ("-a", -a.clone(), -am),
                        ("-&a", -&a, -am),
                        ("a * s", a.clone() * 1.5, am * 1.5),
                        ("&a * s", &a * 1.5, am * 1.5),
                        ("a / s", a.clone() / 4.0, am / 4.0),
                        ("&a / s", &a / 4.0, am / 4.0),
                        ("a *= s", { let mut r = a.clone(); r *= 1.5; r }, am * 1.5),
                        ("a /= s", { let mut r = a.clone(); r /= 4.0; r }, am / 4.0),
                    ];
                    for (name, got, want) in forms {
                        st.evaluations += 1;
                        st.transitions += 1;
                        let key = hash64(&("derivative-operator", name, pa, pb, am.iter().map(|v| v.to_bits()).collect::<Vec<_>>(), bm.iter().map(|v| v.to_bits()).collect::<Vec<_>>()));
                        st.state(key);
                        if !pa || !pb {
                            st.nontrivial(key);
                        }
                        if al21(&got) != want {
                            fail(st, name, format!("{name} with presence ({pa}, {pb}) of a = {:?}, b = {:?} gives {:?}, the matrix operation gives {:?}", am.as_slice(), bm.as_slice(), al21(&got).as_slice(), want.as_slice()));
                        }
                    }
                    // a^T b (1 x 1)
                    let t = a.tr_mul(&b).unwrap_generic(Const::<1>, Const::<1>);
                    let want = am.tr_mul(bm);
                    st.evaluations += 1;
                    if t[(0, 0)] != want[(0, 0)] {
                        fail(st, "a.tr_mul(&b)", format!("tr_mul with presence ({pa}, {pb}) gives {}, want {}", t[(0, 0)], want[(0, 0)]));
                    }
                }
                // outer product a (2 x 1) * c (1 x 2)
                for cm in &rows {
                    for (c, pc) in encs12(cm) {
                        let got = (&a * &c).unwrap_generic(Const::<2>, Const::<2>);
                        let want = am * cm;
                        st.evaluations += 1;
                        if got != want {
                            fail(st, "&a * &c", format!("outer product with presence ({pa}, {pc}) gives {:?}, want {:?}", got.as_slice(), want.as_slice()));
                        }
                    }
                }
            }
        }
    }
    // dynamically sized parts of length 3
    type DD = Derivative<f64, f64, Dyn, U1>;
    let v = nalgebra::DVector::from_vec(vec![0.5, -1.5, 2.25]);
    let w = &v * 2.0;
    let z = nalgebra::DVector::from_vec(vec![0.0, 0.0, 0.0]);
    for (a, am, pa) in [(DD::none(), &z, false), (DD::some(z.clone()), &z, true), (DD::some(v.clone()), &v, true)] {
        for (b, bm, pb) in [(DD::none(), &z, false), (DD::some(z.clone()), &z, true), (DD::some(w.clone()), &w, true)] {
            let alpha = |d: &DD| d.clone().unwrap_generic(Dyn(3), Const::<1>);
            let forms: Vec<(&str, DD, nalgebra::DVector<f64>)> = vec![
                ("dyn a + b", a.clone() + b.clone(), am + bm),
                ("dyn &a + &b", &a + &b, am + bm),
                ("dyn a - &b", a.clone() - &b, am - bm),
                ("dyn &a - &b", &a - &b, am - bm),
                ("dyn a += b", { let mut r = a.clone(); r += b.clone(); r }, am + bm),
                ("dyn a -= b", { let mut r = a.clone(); r -= b.clone(); r }, am - bm),
            ];
            for (name, got, want) in forms {
                st.evaluations += 1;
                if alpha(&got) != want {
                    fail(st, name, format!("{name} with presence ({pa}, {pb}) gives {:?}, want {:?}", alpha(&got).as_slice(), want.as_slice()));
                }
            }
        }
    }
}

fn field_interface(st: &mut Stats) {
    use nalgebra::{Const, Dyn};
    use num_dual::*;
    field_bisim!(st, DualVec<f64, f64, Const<2>>, f64, Dims::n(2));
    field_bisim!(st, DualVec<f64, f64, Dyn>, f64, Dims::n(2));
    field_bisim!(st, DualVec<f32, f32, Dyn>, f32, Dims::n(1));
    field_bisim!(st, Dual2Vec<f64, f64, Const<2>>, f64, Dims::n(2));
    field_bisim!(st, Dual2Vec<f64, f64, Dyn>, f64, Dims::n(1));
}


/// (e) the driver functions: a closure result whose parts are absent must give the same driver output
/// as the same result written with explicit zero parts - jacobian for ALL 3^m assignments of
/// {variable, absent constant, explicit-zero constant} to the m = 1..4 output components (static and
/// dynamic input, n = 2), gradient with both encodings of a constant, hessian with all 4 and
/// partial_hessian with all 8 presence patterns of a result whose absent parts are zero.
fn drivers(st: &mut Stats) {
    use nalgebra::{DMatrix, DVector, Dyn, SMatrix, SVector, U1, U2, U3};
    use num_dual::*;
    let z = |v: f64| if v == 0.0 { 0.0f64.to_bits() } else { v.to_bits() };
    let mut fail = |st: &mut Stats, driver: &str, enc: String, what: String| {
        st.violation(Violation { sig: format!("driver {driver}"), case: json!({"driver": driver, "encoding": enc}), what });
    };
    // ---- jacobian, dynamic and static input of length 2
    for m in 1..=4usize {
        let total = 3usize.pow(m as u32);
        for code in 0..total {
            let kinds: Vec<usize> = (0..m).map(|r| code / 3usize.pow(r as u32) % 3).collect();
            let comp = |r: usize, kind: usize, x: &[DualVec<f64, f64, Dyn>]| -> DualVec<f64, f64, Dyn> {
                match kind {
                    0 => &x[0] * &x[1] * (r as f64 + 1.5) + &x[0],
                    1 => DualVec::from_re(r as f64 + 0.25),
                    _ => DualVec::new(r as f64 + 0.25, Derivative::some(DVector::zeros(2))),
                }
            };
            let xv = DVector::from_vec(vec![1.25f64, -0.5]);
            let (f, j) = jacobian(|x: DVector<DualVec<f64, f64, Dyn>>| DVector::from_fn(m, |r, _| comp(r, kinds[r], x.as_slice())), xv.clone());
            let canon: Vec<usize> = kinds.iter().map(|k| if *k == 1 { 2 } else { *k }).collect();
            let (fc, jc) = jacobian(|x: DVector<DualVec<f64, f64, Dyn>>| DVector::from_fn(m, |r, _| comp(r, canon[r], x.as_slice())), xv);
            st.evaluations += 2;
            st.transitions += 2;
            st.state(hash64(&("jacobian dyn", m, code)));
            if kinds.contains(&1) {
                st.nontrivial(hash64(&("jacobian dyn", m, code)));
            }
            let same = f.len() == fc.len() && j.shape() == jc.shape() && j.shape() == (m, 2) && f.iter().zip(fc.iter()).all(|(a, b)| z(*a) == z(*b)) && j.iter().zip(jc.iter()).all(|(a, b)| z(*a) == z(*b));
            st.outcome(hash64(&j.iter().map(|v| z(*v)).collect::<Vec<_>>()));
            if !same {
                fail(st, "jacobian (dynamic)", format!("{kinds:?} (0 = variable, 1 = absent constant, 2 = explicit-zero constant)"), format!("J = {:?} with absent parts but {:?} with explicit zeros", j.as_slice(), jc.as_slice()));
            }
        }
    }
    for code in 0..27usize {
        let kinds: Vec<usize> = (0..3).map(|r| code / 3usize.pow(r as u32) % 3).collect();
        let comp = |r: usize, kind: usize, x: &[DualVec<f64, f64, U2>]| -> DualVec<f64, f64, U2> {
            match kind {
                0 => &x[0] * &x[1] * (r as f64 + 1.5) + &x[1],
                1 => DualVec::from_re(r as f64 + 0.25),
                _ => DualVec::new(r as f64 + 0.25, Derivative::some(SVector::<f64, 2>::zeros())),
            }
        };
        let xv = SVector::<f64, 2>::new(1.25, -0.5);
        let (_, j): (SVector<f64, 3>, SMatrix<f64, 3, 2>) = jacobian(|x: SVector<DualVec<f64, f64, U2>, 2>| SVector::<_, 3>::from_fn(|r, _| comp(r, kinds[r], x.as_slice())), xv);
        let canon: Vec<usize> = kinds.iter().map(|k| if *k == 1 { 2 } else { *k }).collect();
        let (_, jc): (SVector<f64, 3>, SMatrix<f64, 3, 2>) = jacobian(|x: SVector<DualVec<f64, f64, U2>, 2>| SVector::<_, 3>::from_fn(|r, _| comp(r, canon[r], x.as_slice())), xv);
        st.evaluations += 2;
        st.transitions += 2;
        st.state(hash64(&("jacobian static", code)));
        if kinds.contains(&1) {
            st.nontrivial(hash64(&("jacobian static", code)));
        }
        if !j.iter().zip(jc.iter()).all(|(a, b)| z(*a) == z(*b)) {
            fail(st, "jacobian (static)", format!("{kinds:?} (0 = variable, 1 = absent constant, 2 = explicit-zero constant)"), format!("J = {:?} with absent parts but {:?} with explicit zeros", j.as_slice(), jc.as_slice()));
        }
    }
    // ---- gradient
    for n in 0..=3usize {
        let xv = DVector::from_fn(n, |i, _| i as f64 + 0.5);
        let (f1, g1) = gradient(|_: DVector<DualVec<f64, f64, Dyn>>| DualVec::from_re(2.5), xv.clone());
        let (f2, g2) = gradient(|_: DVector<DualVec<f64, f64, Dyn>>| DualVec::new(2.5, Derivative::some(DVector::zeros(n))), xv);
        st.evaluations += 2;
        st.state(hash64(&("gradient", n)));
        st.nontrivial(hash64(&("gradient", n)));
        if f1 != f2 || g1.len() != n || g2.len() != n || g1.iter().zip(g2.iter()).any(|(a, b)| z(*a) != z(*b)) {
            fail(st, "gradient", format!("n = {n}"), format!("gradient {:?} for an absent part, {:?} for explicit zeros", g1.as_slice(), g2.as_slice()));
        }
    }
    // ---- hessian: a linear result (v2 = 0) and a constant, every presence pattern of the zero parts
    for n in 1..=3usize {
        for lin in [false, true] {
            let mut outs: Vec<(u32, Vec<u64>)> = Vec::new();
            for pat in 0..4u32 {
                if lin && pat & 1 == 0 {
                    continue; // the gradient of the linear result is non-zero: it has to be present
                }
                let xv = DVector::from_fn(n, |i, _| i as f64 + 0.5);
                let (f, g, h) = hessian(
                    |_: DVector<Dual2Vec<f64, f64, Dyn>>| {
                        let v1 = if lin { Derivative::some(nalgebra::RowDVector::from_fn(n, |_, c| c as f64 + 2.0)) } else if pat & 1 != 0 { Derivative::some(nalgebra::RowDVector::zeros(n)) } else { Derivative::none() };
                        let v2 = if pat & 2 != 0 { Derivative::some(DMatrix::zeros(n, n)) } else { Derivative::none() };
                        Dual2Vec::new(1.75, v1, v2)
                    },
                    xv,
                );
                st.evaluations += 1;
                st.state(hash64(&("hessian", n, lin, pat)));
                st.nontrivial(hash64(&("hessian", n, lin, pat)));
                let mut bits = vec![z(f), g.len() as u64, h.nrows() as u64, h.ncols() as u64];
                bits.extend(g.iter().map(|v| z(*v)));
                bits.extend(h.iter().map(|v| z(*v)));
                outs.push((pat, bits));
            }
            if let Some((pat, _)) = outs.iter().find(|(_, b)| *b != outs[outs.len() - 1].1) {
                fail(st, "hessian", format!("n = {n}, linear result = {lin}, presence pattern (bit 0 = v1, bit 1 = v2) {pat}"), "value, gradient or Hessian differ from those of the fully explicit encoding".into());
            }
        }
    }
    // ---- partial_hessian: a constant and a result linear in x, every presence pattern of the zero parts
    for lin in [false, true] {
        let mut outs: Vec<(u32, Vec<u64>)> = Vec::new();
        for pat in 0..8u32 {
            if lin && pat & 1 == 0 {
                continue;
            }
            let xv = SVector::<f64, 2>::new(0.5, 1.5);
            let yv = SVector::<f64, 3>::new(-1.0, 2.0, 0.25);
            let (f, fx, fy, fxy) = partial_hessian(
                |_: SVector<HyperDualVec<f64, f64, U2, U3>, 2>, _: SVector<HyperDualVec<f64, f64, U2, U3>, 3>| {
                    let e1 = if lin { Derivative::some(SVector::<f64, 2>::new(3.0, -4.0)) } else if pat & 1 != 0 { Derivative::some(SVector::<f64, 2>::zeros()) } else { Derivative::none() };
                    let e2 = if pat & 2 != 0 { Derivative::some(nalgebra::RowSVector::<f64, 3>::zeros()) } else { Derivative::none() };
                    let e12 = if pat & 4 != 0 { Derivative::some(SMatrix::<f64, 2, 3>::zeros()) } else { Derivative::none() };
                    HyperDualVec::new(0.75, e1, e2, e12)
                },
                xv,
                yv,
            );
            st.evaluations += 1;
            st.state(hash64(&("partial_hessian", lin, pat)));
            st.nontrivial(hash64(&("partial_hessian", lin, pat)));
            let mut bits = vec![z(f)];
            bits.extend(fx.iter().map(|v| z(*v)));
            bits.extend(fy.iter().map(|v| z(*v)));
            bits.extend(fxy.iter().map(|v| z(*v)));
            outs.push((pat, bits));
        }
        if let Some((pat, _)) = outs.iter().find(|(_, b)| *b != outs[outs.len() - 1].1) {
            fail(st, "partial_hessian", format!("result linear in x = {lin}, presence pattern (bit 0 = eps1, bit 1 = eps2, bit 2 = eps1eps2) {pat}"), "value, gradients or mixed Hessian differ from those of the fully explicit encoding".into());
        }
    }
    let _ = U1;
}

fn conversions(st: &mut Stats) {
    use nalgebra::{Const, Dyn};
    use num_dual::*;
    conv_bisim!(st, DualVec<f64, f64, Const<2>>, DualVec<f32, f32, Const<2>>, f32, Dims::n(2));
    conv_bisim!(st, DualVec<f64, f64, Const<2>>, DualVec<f64, f64, Const<2>>, f64, Dims::n(2));
    conv_bisim!(st, DualVec<f64, f64, Dyn>, DualVec<f32, f32, Dyn>, f32, Dims::n(3));
    conv_bisim!(st, DualVec<f64, f64, Dyn>, DualVec<f32, f32, Dyn>, f32, Dims::n(0));
    conv_bisim!(st, Dual2Vec<f64, f64, Const<2>>, Dual2Vec<f32, f32, Const<2>>, f32, Dims::n(2));
    conv_bisim!(st, Dual2Vec<f64, f64, Dyn>, Dual2Vec<f32, f32, Dyn>, f32, Dims::n(2));
    conv_bisim!(st, Dual2Vec<f64, f64, Dyn>, Dual2Vec<f64, f64, Dyn>, f64, Dims::n(1));
    conv_float_bisim!(st, DualVec<f64, f64, Const<2>>, f64, Dims::n(2));
    conv_float_bisim!(st, DualVec<f64, f64, Const<2>>, f32, Dims::n(2));
    conv_float_bisim!(st, DualVec<f64, f64, Dyn>, f64, Dims::n(3));
    conv_float_bisim!(st, Dual2Vec<f64, f64, Const<2>>, f64, Dims::n(2));
    conv_float_bisim!(st, Dual2Vec<f64, f64, Dyn>, f32, Dims::n(1));
}

fn universe(tier: Tier, v: &mut impl Visitor) {
    use nalgebra::{Const, Dyn};
    use num_dual::*;
    v.visit::<f64, DualVec<f64, f64, Const<1>>>(Dims::n(1));
    v.visit::<f64, DualVec<f64, f64, Const<2>>>(Dims::n(2));
    v.visit::<f64, Dual2Vec<f64, f64, Const<1>>>(Dims::n(1));
    v.visit::<f64, Dual2Vec<f64, f64, Const<2>>>(Dims::n(2));
    v.visit::<f64, HyperDualVec<f64, f64, Const<1>, Const<2>>>(Dims::mn(1, 2));
    v.visit::<f64, HyperDualVec<f64, f64, Const<2>, Const<2>>>(Dims::mn(2, 2));
    v.visit::<f64, DualVec<Dual64, f64, Const<2>>>(Dims::n(2));
    v.visit::<f64, Dual2Vec<Dual64, f64, Const<1>>>(Dims::n(1));
    v.visit::<f32, DualVec<f32, f32, Const<2>>>(Dims::n(2));
    v.visit::<f32, Dual2Vec<f32, f32, Const<2>>>(Dims::n(2));
    let lens: &[usize] = if tier == Tier::Thorough { &[0, 1, 2, 3] } else { &[0, 2] };
    for &n in lens {
        v.visit::<f64, DualVec<f64, f64, Dyn>>(Dims::n(n));
        v.visit::<f64, Dual2Vec<f64, f64, Dyn>>(Dims::n(n));
    }
    for &(m, n) in &[(0usize, 2usize), (2, 0), (1, 2), (2, 1), (2, 2)] {
        v.visit::<f64, HyperDualVec<f64, f64, Dyn, Dyn>>(Dims::mn(m, n));
    }
    if tier == Tier::Thorough {
        v.visit::<f32, HyperDualVec<f32, f32, Dyn, Dyn>>(Dims::mn(2, 2));
        v.visit::<f64, HyperDualVec<Dual64, f64, Const<2>, Const<2>>>(Dims::mn(2, 2));
        v.visit::<f64, Dual<DualSVec64<2>, f64>>(Dims::n(2));
    }
}

fn main() {
    quiet_panics();
    let cli = cli();
    if let Some(path) = &cli.replay {
        // a replay file holds the last step of a history (operands with their encodings): re-run
        // that step through all encodings of the recorded alpha operands
        let v = read_replay(path);
        struct R<'a> {
            case: &'a Value,
            ok: bool,
        }
        impl<'a> TypedAction for R<'a> {
            fn act<F: Flt, D: Subject<F>>(&mut self, d: Dims, l: &Layout) {
                let op = op_from_json(&self.case["op"]);
                let args: Vec<Parts<F>> = self.case["args"].as_array().unwrap().iter().map(parts_from_json::<F>).collect();
                let encs: Vec<Vec<Parts<F>>> = args
                    .iter()
                    .map(|p| {
                        let a = Alpha {
                            vals: alpha_vals(l, p),
                            zero_groups: (0..l.ngroups()).filter(|g| l.slots.iter().enumerate().all(|(i, s)| !s.groups.contains(g) || p.alpha(l, i) == F::zero())).collect(),
                        };
                        encodings(l, &a)
                    })
                    .collect();
                let mut st = Stats::default();
                let r = bisim_step::<F, D>(d, l, op, &encs, &|| json!([]), &mut st);
                for (sig, (_, v)) in &st.violations {
                    println!("replay: {sig}: {}", v.what);
                }
                self.ok = r.is_some() && st.violations.is_empty();
            }
        }
        let case = &v["case"];
        let mut act = R { case, ok: false };
        let name = case["type"].as_str().unwrap().to_string();
        let mut f = FindType { name: &name, dims: replay_dims(case), action: &mut act, found: false };
        universe(Tier::Thorough, &mut f);
        if !f.found {
            machinery("replay: type not in the universe");
        }
        if act.ok {
            println!("replay: property holds on this case");
            std::process::exit(0);
        }
        println!("VIOLATION property={PROP} replay={path}");
        std::process::exit(1);
    }
    let start = Instant::now();
    let mut stats = Stats::default();
    let mut e = Enumerate { mode: cli.mode, stats: &mut stats, axes: vec![], classes_total: 0 };
    let tier = if cli.mode == Mode::Quick { Tier::Quick } else { Tier::Thorough };
    universe(tier, &mut e);
    conversions(e.stats);
    field_interface(e.stats);
    derivative_operators(e.stats);
    if let Err(m) = guarded(|| drivers(e.stats)) {
        e.stats.violation(Violation { sig: "driver panic".into(), case: json!({}), what: format!("a driver panicked: {m}") });
    }
    let axes = std::mem::take(&mut e.axes);
    let classes = e.classes_total;
    let capped = axes.iter().any(|a| a["frontier_capped"].as_bool().unwrap_or(false));
    let rep = Report {
        property: PROP,
        mode: cli.mode,
        seed: cli.seed,
        start,
        rule: "abstraction alpha: absent part -> zeros. (a) every operation of a 53-operation alphabet, the checked / unchecked narrowing and identity conversions and 48 methods of nalgebra's field interface on DualVec and Dual2Vec, x alpha-operand tuples (each group zero or non-zero, two real parts) x ALL 2^k encodings of the zero groups as absent or explicit zeros; (b) BFS over histories of 13 accumulator updates (compound assignments with dual and scalar operands, y - acc, y / acc, neg, recip, sqrt) x y in every encoding, from every encoding of the accumulator; a state is an alpha-class (alpha value bits + the set of concrete presence patterns that reach it), de-duplicated per depth. Oracle: alpha(result) is the same number in every slot for all encodings (bisimulation), and equals the exact rational reference where no rounding can occur. Non-trivial = alpha tuple reached through more than one encoding. (d) conversions of vector dual numbers to other widths and to plain floats, nalgebra's field interface incl. ties of the real parts, and every operator form of the public part type Derivative, for every encoding. (e) the driver functions: jacobian for all 3^m assignments of {variable, absent constant, explicit-zero constant} to m = 1..4 output components (dynamic) and m = 3 (static), gradient of both encodings of a constant for n = 0..3, hessian (4 patterns) and partial_hessian (8 patterns) of constant and linear results - the outputs must not depend on the encoding.".into(),
        assumptions: vec!["signed zeros are identified (0 - r vs -r); NaN equals NaN".into(), "history frontier capped per depth and type when it exceeds the cap (reported as frontier_capped)".into()],
        extra: json!({"axes": axes, "alpha_classes": classes}),
        exhaustive: !capped,
        caps: if capped { vec!["history frontier cap hit for some types (see axes.frontier_capped); everything below the cap depth fully covered".into()] } else { vec![] },
    };
    std::process::exit(finish(rep, stats));
}
