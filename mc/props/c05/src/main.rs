//! C05 — derivative driver functions seed, extract and orient results correctly.
//! Exact oracle: asymmetric integer polynomials whose partial derivatives are obtained by symbolic
//! differentiation of the coefficient table in integer arithmetic (no dual numbers involved).

use explore::*;
use nalgebra::{DVector, SVector};
use num_dual::*;
use refmodel::{taylor_dd, DD};
use serde_json::json;
use std::time::Instant;
use subject::{apply_impl, Op};

const PROP: &str = "C05";

// ------------------------------------------------------------------------------------------------
// integer polynomials

#[derive(Clone, Debug)]
struct Term {
    c: i64,
    e: Vec<u8>,
}

#[derive(Clone, Debug)]
struct Poly {
    n: usize,
    terms: Vec<Term>,
    /// optional linear denominator c0 + sum l_i x_i: the function is then the rational function
    /// P / L (quotient rules of every type behind the drivers); `over` chooses c0 so that L = 2
    /// at the evaluation point, which keeps every value and derivative a small dyadic rational
    den: Option<(i64, Vec<i64>)>,
}

const LCO: [i64; 12] = [1, -1, 2, 1, -2, 1, 3, -1, 1, 2, -1, 1];

impl Poly {
    /// all monomials of total degree <= deg in n variables, pairwise distinct non-zero
    /// coefficients with alternating signs, different for every output index r
    fn new(n: usize, r: usize, deg: usize) -> Poly {
        let mut terms = Vec::new();
        let mut e = vec![0u8; n];
        let mut k = 0i64;
        fn rec(i: usize, left: usize, e: &mut Vec<u8>, out: &mut Vec<Vec<u8>>) {
            if i == e.len() {
                out.push(e.clone());
                return;
            }
            for d in 0..=left {
                e[i] = d as u8;
                rec(i + 1, left - d, e, out);
            }
            e[i] = 0;
        }
        let mut exps = Vec::new();
        rec(0, deg, &mut e, &mut exps);
        for ex in exps {
            k += 1;
            let mag = k + 97 * r as i64;
            let c = if (k + r as i64) % 3 == 0 { -mag } else { mag };
            terms.push(Term { c, e: ex });
        }
        Poly { n, terms, den: None }
    }
    /// the rational function P / L with L(x0) = 2
    fn over(mut self, x0: &[i64]) -> Poly {
        let l: Vec<i64> = LCO[..self.n].to_vec();
        let c0 = 2 - l.iter().zip(x0.iter()).map(|(a, b)| a * b).sum::<i64>();
        self.den = Some((c0, l));
        self
    }
    fn eval<D: DualNum<f64>>(&self, x: &[D]) -> D {
        // the accumulator starts as a constant (no derivative parts) and every second term uses the
        // in-place operators, as user code and nalgebra's folds do
        let mut s = D::from(0.0);
        for (k, t) in self.terms.iter().enumerate() {
            let mut p = D::from(t.c as f64);
            for (i, &d) in t.e.iter().enumerate() {
                for _ in 0..d {
                    if k % 2 == 0 {
                        p = p * x[i].clone();
                    } else {
                        p *= x[i].clone();
                    }
                }
            }
            if k % 2 == 0 {
                s = s + p;
            } else {
                s += p;
            }
        }
        if let Some((c0, l)) = &self.den {
            let mut q = D::from(*c0 as f64);
            for (i, li) in l.iter().enumerate() {
                q = q + x[i].clone() * D::from(*li as f64);
            }
            s = s / q;
        }
        s
    }
    fn diff(&self, v: usize) -> Poly {
        let mut terms = Vec::new();
        for t in &self.terms {
            if t.e[v] > 0 {
                let mut e = t.e.clone();
                e[v] -= 1;
                terms.push(Term { c: t.c * t.e[v] as i64, e });
            }
        }
        Poly { n: self.n, terms, den: None }
    }
    fn num_at(&self, x: &[i64]) -> i64 {
        self.terms.iter().map(|t| t.c * t.e.iter().enumerate().map(|(i, &d)| x[i].pow(d as u32)).product::<i64>()).sum()
    }
    fn at(&self, x: &[i64]) -> f64 {
        self.d(&[], x)
    }
    fn num_d(&self, vars: &[usize], x: &[i64]) -> i64 {
        let mut p = self.clone();
        for &v in vars {
            p = p.diff(v);
        }
        p.num_at(x)
    }
    /// partial derivative with respect to the listed variables (repetitions allowed); for P / L by
    /// the Leibniz rule over the list positions with d_U (1/L) = (-1)^|U| |U|! prod l_u / L^(|U|+1),
    /// exact in f64 because L is a power of two at the point and all numerators are small integers
    fn d(&self, vars: &[usize], x: &[i64]) -> f64 {
        match &self.den {
            None => self.num_d(vars, x) as f64,
            Some((c0, l)) => {
                let lv = (c0 + l.iter().zip(x.iter()).map(|(a, b)| a * b).sum::<i64>()) as f64;
                let k = vars.len();
                let mut total = 0.0f64;
                for mask in 0..(1usize << k) {
                    let t: Vec<usize> = (0..k).filter(|i| mask & (1 << i) != 0).map(|i| vars[i]).collect();
                    let u: Vec<usize> = (0..k).filter(|i| mask & (1 << i) == 0).map(|i| vars[i]).collect();
                    let m = u.len();
                    let mut coef = if m % 2 == 0 { 1.0 } else { -1.0 };
                    for j in 1..=m {
                        coef *= j as f64;
                    }
                    for v in &u {
                        coef *= l[*v] as f64;
                    }
                    total += self.num_d(&t, x) as f64 * coef / lv.powi(m as i32 + 1);
                }
                total
            }
        }
    }
}

static THOROUGH: std::sync::atomic::AtomicBool = std::sync::atomic::AtomicBool::new(false);
fn thorough() -> bool {
    THOROUGH.load(std::sync::atomic::Ordering::Relaxed)
}
/// largest dynamic input length: 6 in the quick tier, 12 in the thorough tier
fn dyn_max() -> usize {
    if thorough() { 12 } else { 6 }
}

fn point(n: usize, which: usize) -> Vec<i64> {
    let base: [[i64; 12]; 2] = [[2, -1, 3, 1, -2, 2, 1, -3, 2, -1, 1, 3], [-1, 2, 1, -2, 3, -1, 2, 1, -1, 3, -2, 1]];
    base[which][..n].to_vec()
}

struct Ctx<'a> {
    st: &'a mut Stats,
}

impl<'a> Ctx<'a> {
    fn check(&mut self, driver: &str, shape: &str, entry: &str, got: f64, want: f64, case: serde_json::Value) {
        self.st.evaluations += 1;
        self.st.transitions += 1;
        let k = hash64(&(driver, shape, entry, case.to_string()));
        self.st.state(k);
        self.st.outcome(hash64(&(got.to_bits(), k)));
        if want != 0.0 && want != 1.0 && !entry.starts_with("value") {
            self.st.nontrivial(k);
        }
        if got != want {
            self.st.violation(Violation {
                sig: format!("{driver} {shape} {}", entry.split('[').next().unwrap_or(entry)),
                case: json!({"driver": driver, "shape": shape, "entry": entry, "case": case}),
                what: format!("{driver} {shape}: {entry} = {got:e}, exact value {want:e}"),
            });
        }
    }
    fn check_tol(&mut self, driver: &str, shape: &str, entry: &str, got: f64, want: DD, tol: f64) {
        self.st.evaluations += 1;
        self.st.transitions += 1;
        let k = hash64(&(driver, shape, entry, got.to_bits()));
        self.st.state(k);
        self.st.nontrivial(k);
        let diff = DD::f(got).sub_dd(want).abs_dd().to_f64();
        if !(diff <= tol) {
            self.st.violation(Violation {
                sig: format!("{driver} {shape} {}", entry.split('[').next().unwrap_or(entry)),
                case: json!({"driver": driver, "shape": shape, "entry": entry}),
                what: format!("{driver} {shape}: {entry} = {got:e}, reference {:e}, tol {tol:e}", want.to_f64()),
            });
        }
    }
    fn fail(&mut self, driver: &str, shape: &str, what: String) {
        self.st.violation(Violation { sig: format!("{driver} {shape} structure"), case: json!({"driver": driver, "shape": shape}), what });
    }
}

#[derive(Debug, Clone, PartialEq)]
struct UnitErr;

// ------------------------------------------------------------------------------------------------
// gradient / hessian / jacobian / partial_hessian: static by macro, dynamic by loops

macro_rules! grad_static {
    ($ctx:expr, $($n:literal),*) => {$(
        for which in 0..2 {
            let n = $n;
            let p = Poly::new(n, which, 3);
            let x = point(n, which);
            let p = if which == 1 { p.over(&x) } else { p };
            let xv = SVector::<f64, $n>::from_fn(|i, _| x[i] as f64);
            let (f, g) = gradient(|v: SVector<DualSVec64<$n>, $n>| p.eval(v.as_slice()), xv);
            $ctx.check("gradient", &format!("static n={n}"), "value", f, p.at(&x) as f64, json!({"point": x}));
            for i in 0..n {
                $ctx.check("gradient", &format!("static n={n}"), &format!("g[{i}]"), g[i], p.d(&[i], &x), json!({"point": x}));
            }
            let r = try_gradient(|v: SVector<DualSVec64<$n>, $n>| Ok::<_, UnitErr>(p.eval(v.as_slice())), xv).unwrap();
            if r.0.to_bits() != f.to_bits() || r.1.iter().zip(g.iter()).any(|(a, b)| a.to_bits() != b.to_bits()) {
                $ctx.fail("try_gradient", &format!("static n={n}"), "Ok result differs from the infallible variant".into());
            }
            let e = try_gradient(|_: SVector<DualSVec64<$n>, $n>| Err::<DualSVec64<$n>, _>(format!("boom{n}")), xv);
            if e != Err(format!("boom{n}")) {
                $ctx.fail("try_gradient", &format!("static n={n}"), "closure error not returned unchanged".into());
            }
            // hessian
            let (f, g, h) = hessian(|v: SVector<Dual2SVec64<$n>, $n>| p.eval(v.as_slice()), xv);
            $ctx.check("hessian", &format!("static n={n}"), "value", f, p.at(&x) as f64, json!({"point": x}));
            for i in 0..n {
                $ctx.check("hessian", &format!("static n={n}"), &format!("g[{i}]"), g[i], p.d(&[i], &x), json!({"point": x}));
                for j in 0..n {
                    $ctx.check("hessian", &format!("static n={n}"), &format!("h[({i},{j})]"), h[(i, j)], p.d(&[i, j], &x), json!({"point": x}));
                }
            }
            let r = try_hessian(|v: SVector<Dual2SVec64<$n>, $n>| Ok::<_, i32>(p.eval(v.as_slice())), xv).unwrap();
            if r.0.to_bits() != f.to_bits() || r.1 != g || r.2 != h {
                $ctx.fail("try_hessian", &format!("static n={n}"), "Ok result differs from the infallible variant".into());
            }
            let e = try_hessian(|_: SVector<Dual2SVec64<$n>, $n>| Err::<Dual2SVec64<$n>, _>(-7i32 - n as i32), xv);
            if e != Err(-7i32 - n as i32) {
                $ctx.fail("try_hessian", &format!("static n={n}"), "closure error not returned unchanged".into());
            }
        }
    )*};
}

macro_rules! jac_static {
    ($ctx:expr, $m:literal, $($n:literal),*) => {$(
        {
            let (m, n) = ($m, $n);
            let polys: Vec<Poly> = (0..m).map(|r| Poly::new(n, r + 1, 3)).collect();
            let x = point(n, (m + n) % 2);
            let polys: Vec<Poly> = polys.into_iter().enumerate().map(|(r, p)| if r % 2 == 1 { p.over(&x) } else { p }).collect();
            let xv = SVector::<f64, $n>::from_fn(|i, _| x[i] as f64);
            let (f, j) = jacobian(|v: SVector<DualSVec64<$n>, $n>| SVector::<DualSVec64<$n>, $m>::from_fn(|r, _| polys[r].eval(v.as_slice())), xv);
            let shape = format!("static m={m} n={n}");
            if j.shape() != (m, n) {
                $ctx.fail("jacobian", &shape, format!("shape {:?}", j.shape()));
            }
            for r in 0..m {
                $ctx.check("jacobian", &shape, &format!("value[{r}]"), f[r], polys[r].at(&x) as f64, json!({"point": x}));
                for c in 0..n {
                    $ctx.check("jacobian", &shape, &format!("j[({r},{c})]"), j[(r, c)], polys[r].d(&[c], &x), json!({"point": x}));
                }
            }
            let r2 = try_jacobian(|v: SVector<DualSVec64<$n>, $n>| Ok::<_, UnitErr>(SVector::<DualSVec64<$n>, $m>::from_fn(|r, _| polys[r].eval(v.as_slice()))), xv).unwrap();
            if r2.0 != f || r2.1 != j {
                $ctx.fail("try_jacobian", &shape, "Ok result differs from the infallible variant".into());
            }
            let e = try_jacobian(|_: SVector<DualSVec64<$n>, $n>| Err::<SVector<DualSVec64<$n>, $m>, _>(UnitErr), xv);
            if e != Err(UnitErr) {
                $ctx.fail("try_jacobian", &shape, "closure error not returned unchanged".into());
            }
        }
    )*};
}

macro_rules! phess_static {
    ($ctx:expr, $m:literal, $($n:literal),*) => {$(
        {
            let (m, n) = ($m, $n);
            let p = Poly::new(m + n, m * 7 + n, 3);
            let pt = point(m + n, (m + n) % 2);
            let p = if (m + n) % 2 == 0 { p.over(&pt) } else { p };
            let xv = SVector::<f64, $m>::from_fn(|i, _| pt[i] as f64);
            let yv = SVector::<f64, $n>::from_fn(|i, _| pt[m + i] as f64);
            let fun = |x: SVector<HyperDualSVec64<$m, $n>, $m>, y: SVector<HyperDualSVec64<$m, $n>, $n>| {
                let all: Vec<HyperDualSVec64<$m, $n>> = x.iter().chain(y.iter()).cloned().collect();
                p.eval(&all)
            };
            let (f, fx, fy, fxy) = partial_hessian(fun, xv, yv);
            let shape = format!("static m={m} n={n}");
            $ctx.check("partial_hessian", &shape, "value", f, p.at(&pt) as f64, json!({"point": pt}));
            for i in 0..m {
                $ctx.check("partial_hessian", &shape, &format!("dx[{i}]"), fx[i], p.d(&[i], &pt), json!({"point": pt}));
            }
            for j in 0..n {
                $ctx.check("partial_hessian", &shape, &format!("dy[{j}]"), fy[j], p.d(&[m + j], &pt), json!({"point": pt}));
            }
            if fxy.shape() != (m, n) {
                $ctx.fail("partial_hessian", &shape, format!("shape {:?}", fxy.shape()));
            }
            for i in 0..m {
                for j in 0..n {
                    $ctx.check("partial_hessian", &shape, &format!("dxdy[({i},{j})]"), fxy[(i, j)], p.d(&[i, m + j], &pt), json!({"point": pt}));
                }
            }
            let r = try_partial_hessian(|x, y| Ok::<_, String>(fun(x, y)), xv, yv).unwrap();
            if r.0.to_bits() != f.to_bits() || r.1 != fx || r.2 != fy || r.3 != fxy {
                $ctx.fail("try_partial_hessian", &shape, "Ok result differs from the infallible variant".into());
            }
            let e = try_partial_hessian(|_: SVector<HyperDualSVec64<$m, $n>, $m>, _: SVector<HyperDualSVec64<$m, $n>, $n>| Err::<HyperDualSVec64<$m, $n>, _>("e".to_string()), xv, yv);
            if e != Err("e".to_string()) {
                $ctx.fail("try_partial_hessian", &shape, "closure error not returned unchanged".into());
            }
        }
    )*};
}

fn dynamic(ctx: &mut Ctx) {
    for n in 0..=dyn_max() {
        for which in 0..2 {
            let p = Poly::new(n, which + 2, 3);
            let x = point(n, which);
            let p = if which == 1 { p.over(&x) } else { p };
            let xv = DVector::<f64>::from_fn(n, |i, _| x[i] as f64);
            let shape = format!("dynamic n={n}");
            let (f, g) = gradient(|v: DVector<DualDVec64>| p.eval(v.as_slice()), xv.clone());
            ctx.check("gradient", &shape, "value", f, p.at(&x) as f64, json!({"point": x}));
            if g.len() != n {
                ctx.fail("gradient", &shape, format!("gradient length {}", g.len()));
            }
            for i in 0..n.min(g.len()) {
                ctx.check("gradient", &shape, &format!("g[{i}]"), g[i], p.d(&[i], &x), json!({"point": x}));
            }
            let e = try_gradient(|_: DVector<DualDVec64>| Err::<DualDVec64, _>(UnitErr), xv.clone());
            if e != Err(UnitErr) {
                ctx.fail("try_gradient", &shape, "closure error not returned unchanged".into());
            }
            let r = try_gradient(|v: DVector<DualDVec64>| Ok::<_, UnitErr>(p.eval(v.as_slice())), xv.clone()).unwrap();
            if r.0.to_bits() != f.to_bits() || r.1 != g {
                ctx.fail("try_gradient", &shape, "Ok result differs from the infallible variant".into());
            }
            let (f, g, h) = hessian(|v: DVector<Dual2DVec64>| p.eval(v.as_slice()), xv.clone());
            ctx.check("hessian", &shape, "value", f, p.at(&x) as f64, json!({"point": x}));
            if g.len() != n || h.shape() != (n, n) {
                ctx.fail("hessian", &shape, format!("shapes {} {:?}", g.len(), h.shape()));
                continue;
            }
            for i in 0..n {
                ctx.check("hessian", &shape, &format!("g[{i}]"), g[i], p.d(&[i], &x), json!({"point": x}));
                for j in 0..n {
                    ctx.check("hessian", &shape, &format!("h[({i},{j})]"), h[(i, j)], p.d(&[i, j], &x), json!({"point": x}));
                }
            }
            let r = try_hessian(|v: DVector<Dual2DVec64>| Ok::<_, UnitErr>(p.eval(v.as_slice())), xv.clone()).unwrap();
            if r.0.to_bits() != f.to_bits() || r.1 != g || r.2 != h {
                ctx.fail("try_hessian", &shape, "Ok result differs from the infallible variant".into());
            }
            // a function that ignores its input: all derivative parts absent
            let (f, g) = gradient(|_: DVector<DualDVec64>| DualDVec64::from_re(4.5), xv.clone());
            ctx.check("gradient", &shape, "value(constant)", f, 4.5, json!({}));
            if g.len() != n || g.iter().any(|v| *v != 0.0) {
                ctx.fail("gradient", &shape, "constant function: gradient is not a zero vector of the input length".into());
            }
            let (_, g, h) = hessian(|_: DVector<Dual2DVec64>| Dual2DVec64::from_re(4.5), xv.clone());
            if g.len() != n || h.shape() != (n, n) || g.iter().any(|v| *v != 0.0) || h.iter().any(|v| *v != 0.0) {
                ctx.fail("hessian", &shape, "constant function: wrong shapes or non-zero entries".into());
            }
        }
        for m in 1..=(if thorough() { 8 } else { 6 }) {
            let polys: Vec<Poly> = (0..m).map(|r| Poly::new(n, r + 3, 3)).collect();
            let x = point(n, (m + n) % 2);
            let polys: Vec<Poly> = polys.into_iter().enumerate().map(|(r, p)| if r % 2 == 1 { p.over(&x) } else { p }).collect();
            let xv = DVector::<f64>::from_fn(n, |i, _| x[i] as f64);
            let shape = format!("dynamic m={m} n={n}");
            let (f, j) = jacobian(|v: DVector<DualDVec64>| DVector::<DualDVec64>::from_fn(m, |r, _| polys[r].eval(v.as_slice())), xv.clone());
            if f.len() != m || j.shape() != (m, n) {
                ctx.fail("jacobian", &shape, format!("shapes {} {:?}", f.len(), j.shape()));
                continue;
            }
            for r in 0..m {
                ctx.check("jacobian", &shape, &format!("value[{r}]"), f[r], polys[r].at(&x) as f64, json!({"point": x}));
                for c in 0..n {
                    ctx.check("jacobian", &shape, &format!("j[({r},{c})]"), j[(r, c)], polys[r].d(&[c], &x), json!({"point": x}));
                }
            }
            let e = try_jacobian(|_: DVector<DualDVec64>| Err::<DVector<DualDVec64>, _>(42u8), xv.clone());
            if e != Err(42u8) {
                ctx.fail("try_jacobian", &shape, "closure error not returned unchanged".into());
            }
            // outputs that do not depend on x (absent parts) mixed with outputs that do
            let (_, j) = jacobian(
                |v: DVector<DualDVec64>| DVector::<DualDVec64>::from_fn(m, |r, _| if r % 2 == 0 { DualDVec64::from_re(1.0 + r as f64) } else { polys[r].eval(v.as_slice()) }),
                xv.clone(),
            );
            for r in 0..m {
                for c in 0..n {
                    let want = if r % 2 == 0 { 0.0 } else { polys[r].d(&[c], &x) };
                    ctx.check("jacobian", &shape, &format!("jmixed[({r},{c})]"), j[(r, c)], want, json!({"point": x}));
                }
            }
        }
    }
    for m in 0..=6usize {
        for n in 0..=6usize {
            let p = Poly::new(m + n, m * 7 + n + 1, 3);
            let pt = point(m + n, (m + n) % 2);
            let p = if (m * 3 + n) % 2 == 0 { p.over(&pt) } else { p };
            let xv = DVector::<f64>::from_fn(m, |i, _| pt[i] as f64);
            let yv = DVector::<f64>::from_fn(n, |i, _| pt[m + i] as f64);
            let shape = format!("dynamic m={m} n={n}");
            let fun = |x: DVector<HyperDualDVec64>, y: DVector<HyperDualDVec64>| {
                let all: Vec<HyperDualDVec64> = x.iter().chain(y.iter()).cloned().collect();
                p.eval(&all)
            };
            let (f, fx, fy, fxy) = partial_hessian(fun, xv.clone(), yv.clone());
            ctx.check("partial_hessian", &shape, "value", f, p.at(&pt) as f64, json!({"point": pt}));
            if fx.len() != m || fy.len() != n || fxy.shape() != (m, n) {
                ctx.fail("partial_hessian", &shape, format!("shapes {} {} {:?}", fx.len(), fy.len(), fxy.shape()));
                continue;
            }
            for i in 0..m {
                ctx.check("partial_hessian", &shape, &format!("dx[{i}]"), fx[i], p.d(&[i], &pt), json!({"point": pt}));
                for j in 0..n {
                    ctx.check("partial_hessian", &shape, &format!("dxdy[({i},{j})]"), fxy[(i, j)], p.d(&[i, m + j], &pt), json!({"point": pt}));
                }
            }
            for j in 0..n {
                ctx.check("partial_hessian", &shape, &format!("dy[{j}]"), fy[j], p.d(&[m + j], &pt), json!({"point": pt}));
            }
            // a function of x only: eps2 and eps1eps2 stay absent
            let px = Poly::new(m, 5, 3);
            let (_, gx, gy, gxy) = partial_hessian(|x: DVector<HyperDualDVec64>, _y: DVector<HyperDualDVec64>| px.eval(x.as_slice()), xv.clone(), yv.clone());
            if gx.len() != m || gy.len() != n || gxy.shape() != (m, n) || gy.iter().any(|v| *v != 0.0) || gxy.iter().any(|v| *v != 0.0) {
                ctx.fail("partial_hessian", &shape, "function of x only: wrong shapes or non-zero y-derivatives".into());
            }
            for i in 0..m {
                ctx.check("partial_hessian", &shape, &format!("dx_only[{i}]"), gx[i], px.d(&[i], &pt[..m]), json!({"point": pt}));
            }
            let e = try_partial_hessian(|_: DVector<HyperDualDVec64>, _: DVector<HyperDualDVec64>| Err::<HyperDualDVec64, _>(UnitErr), xv, yv);
            if e != Err(UnitErr) {
                ctx.fail("try_partial_hessian", &shape, "closure error not returned unchanged".into());
            }
        }
    }
}

fn scalars(ctx: &mut Ctx) {
    // first / second / third derivative on a degree-5 polynomial in one variable
    for which in 0..2 {
        let p = Poly::new(1, which + 4, 5);
        for &x in &[2i64, -1, 3, 0] {
            let xs = [x];
            let p = if which == 1 { p.clone().over(&xs) } else { p.clone() };
            let (f, d1) = first_derivative(|t| p.eval(&[t]), x as f64);
            ctx.check("first_derivative", "scalar", "value", f, p.at(&xs) as f64, json!({"x": x}));
            ctx.check("first_derivative", "scalar", "d1", d1, p.d(&[0], &xs), json!({"x": x}));
            let (f, d1, d2) = second_derivative(|t| p.eval(&[t]), x as f64);
            ctx.check("second_derivative", "scalar", "value", f, p.at(&xs) as f64, json!({"x": x}));
            ctx.check("second_derivative", "scalar", "d1", d1, p.d(&[0], &xs), json!({"x": x}));
            ctx.check("second_derivative", "scalar", "d2", d2, p.d(&[0, 0], &xs), json!({"x": x}));
            let (f, d1, d2, d3) = third_derivative(|t| p.eval(&[t]), x as f64);
            ctx.check("third_derivative", "scalar", "value", f, p.at(&xs) as f64, json!({"x": x}));
            ctx.check("third_derivative", "scalar", "d1", d1, p.d(&[0], &xs), json!({"x": x}));
            ctx.check("third_derivative", "scalar", "d2", d2, p.d(&[0, 0], &xs), json!({"x": x}));
            ctx.check("third_derivative", "scalar", "d3", d3, p.d(&[0, 0, 0], &xs), json!({"x": x}));
            // try_ variants
            let a = try_first_derivative(|t| Ok::<_, UnitErr>(p.eval(&[t])), x as f64).unwrap();
            let b = first_derivative(|t| p.eval(&[t]), x as f64);
            if a != b {
                ctx.fail("try_first_derivative", "scalar", "Ok result differs".into());
            }
            if try_first_derivative(|_: Dual64| Err::<Dual64, _>(UnitErr), 1.0) != Err(UnitErr) {
                ctx.fail("try_first_derivative", "scalar", "error not returned".into());
            }
            let a = try_second_derivative(|t| Ok::<_, String>(p.eval(&[t])), x as f64).unwrap();
            if a != second_derivative(|t| p.eval(&[t]), x as f64) {
                ctx.fail("try_second_derivative", "scalar", "Ok result differs".into());
            }
            if try_second_derivative(|_: Dual2_64| Err::<Dual2_64, _>("s".to_string()), 1.0) != Err("s".to_string()) {
                ctx.fail("try_second_derivative", "scalar", "error not returned".into());
            }
            let a = try_third_derivative(|t| Ok::<_, i64>(p.eval(&[t])), x as f64).unwrap();
            if a != third_derivative(|t| p.eval(&[t]), x as f64) {
                ctx.fail("try_third_derivative", "scalar", "Ok result differs".into());
            }
            if try_third_derivative(|_: Dual3_64| Err::<Dual3_64, _>(-3i64), 1.0) != Err(-3i64) {
                ctx.fail("try_third_derivative", "scalar", "error not returned".into());
            }
        }
    }
    // second_partial_derivative / third_partial_derivative
    for which in 0..2 {
        let p = Poly::new(2, which + 6, 4);
        let pt = point(2, which);
        let p = if which == 1 { p.over(&pt) } else { p };
        let (f, fx, fy, fxy) = second_partial_derivative(|x, y| p.eval(&[x, y]), pt[0] as f64, pt[1] as f64);
        ctx.check("second_partial_derivative", "scalar", "value", f, p.at(&pt) as f64, json!({"point": pt}));
        ctx.check("second_partial_derivative", "scalar", "dx", fx, p.d(&[0], &pt), json!({"point": pt}));
        ctx.check("second_partial_derivative", "scalar", "dy", fy, p.d(&[1], &pt), json!({"point": pt}));
        ctx.check("second_partial_derivative", "scalar", "dxdy", fxy, p.d(&[0, 1], &pt), json!({"point": pt}));
        let a = try_second_partial_derivative(|x, y| Ok::<_, UnitErr>(p.eval(&[x, y])), pt[0] as f64, pt[1] as f64).unwrap();
        if a != (f, fx, fy, fxy) {
            ctx.fail("try_second_partial_derivative", "scalar", "Ok result differs".into());
        }
        if try_second_partial_derivative(|_: HyperDual64, _: HyperDual64| Err::<HyperDual64, _>(UnitErr), 1.0, 2.0) != Err(UnitErr) {
            ctx.fail("try_second_partial_derivative", "scalar", "error not returned".into());
        }
        let p = Poly::new(3, which + 8, 4);
        let pt = point(3, which);
        let p = if which == 0 { p.over(&pt) } else { p };
        let r = third_partial_derivative(|x, y, z| p.eval(&[x, y, z]), pt[0] as f64, pt[1] as f64, pt[2] as f64);
        let names = ["value", "dx", "dy", "dz", "dxdy", "dxdz", "dydz", "dxdydz"];
        let vars: [&[usize]; 8] = [&[], &[0], &[1], &[2], &[0, 1], &[0, 2], &[1, 2], &[0, 1, 2]];
        let got = [r.0, r.1, r.2, r.3, r.4, r.5, r.6, r.7];
        for k in 0..8 {
            ctx.check("third_partial_derivative", "scalar", names[k], got[k], p.d(vars[k], &pt), json!({"point": pt}));
        }
        let a = try_third_partial_derivative(|x, y, z| Ok::<_, UnitErr>(p.eval(&[x, y, z])), pt[0] as f64, pt[1] as f64, pt[2] as f64).unwrap();
        if a != r {
            ctx.fail("try_third_partial_derivative", "scalar", "Ok result differs".into());
        }
        if try_third_partial_derivative(|_: HyperHyperDual64, _: HyperHyperDual64, _: HyperHyperDual64| Err::<HyperHyperDual64, _>(9u64), 1.0, 2.0, 3.0) != Err(9u64) {
            ctx.fail("try_third_partial_derivative", "scalar", "error not returned".into());
        }
    }
    // third_partial_derivative_vec: all index triples, n <= 5
    for n in 1..=(if thorough() { 7usize } else { 5 }) {
        let p = Poly::new(n, n + 10, 3);
        let pt = point(n, n % 2);
        let p = if n % 2 == 0 { p.over(&pt) } else { p };
        let xf: Vec<f64> = pt.iter().map(|v| *v as f64).collect();
        for i in 0..n {
            for j in 0..n {
                for k in 0..n {
                    let r = third_partial_derivative_vec(|x: &[HyperHyperDual64]| p.eval(x), &xf, i, j, k);
                    let shape = format!("n={n}");
                    let c = json!({"point": pt, "i": i, "j": j, "k": k});
                    ctx.check("third_partial_derivative_vec", &shape, "value", r.0, p.at(&pt) as f64, c.clone());
                    ctx.check("third_partial_derivative_vec", &shape, "di", r.1, p.d(&[i], &pt), c.clone());
                    ctx.check("third_partial_derivative_vec", &shape, "dj", r.2, p.d(&[j], &pt), c.clone());
                    ctx.check("third_partial_derivative_vec", &shape, "dk", r.3, p.d(&[k], &pt), c.clone());
                    ctx.check("third_partial_derivative_vec", &shape, "didj", r.4, p.d(&[i, j], &pt), c.clone());
                    ctx.check("third_partial_derivative_vec", &shape, "didk", r.5, p.d(&[i, k], &pt), c.clone());
                    ctx.check("third_partial_derivative_vec", &shape, "djdk", r.6, p.d(&[j, k], &pt), c.clone());
                    ctx.check("third_partial_derivative_vec", &shape, "didjdk", r.7, p.d(&[i, j, k], &pt), c.clone());
                    let a = try_third_partial_derivative_vec(|x: &[HyperHyperDual64]| Ok::<_, UnitErr>(p.eval(x)), &xf, i, j, k).unwrap();
                    if a != r {
                        ctx.fail("try_third_partial_derivative_vec", &shape, "Ok result differs".into());
                    }
                }
            }
        }
        if try_third_partial_derivative_vec(|_: &[HyperHyperDual64]| Err::<HyperHyperDual64, _>(UnitErr), &xf, 0, 0, 0) != Err(UnitErr) {
            ctx.fail("try_third_partial_derivative_vec", &format!("n={n}"), "error not returned".into());
        }
    }
    // nested use: gradient over T = Dual64 (directional derivative of the gradient)
    {
        let n = 3;
        let p = Poly::new(n, 21, 3);
        let pt = point(n, 0);
        let p = p.over(&pt);
        let dir = [1i64, -2, 3];
        let xv = SVector::<Dual64, 3>::from_fn(|i, _| Dual64::new(pt[i] as f64, dir[i] as f64));
        let (f, g) = gradient(|v: SVector<DualVec<Dual64, f64, nalgebra::Const<3>>, 3>| p.eval(v.as_slice()), xv);
        ctx.check("gradient", "nested T=Dual64 n=3", "value.re", f.re, p.at(&pt) as f64, json!({"point": pt}));
        let dd: f64 = (0..n).map(|j| p.d(&[j], &pt) * dir[j] as f64).sum();
        ctx.check("gradient", "nested T=Dual64 n=3", "value.eps", f.eps, dd, json!({"point": pt}));
        for i in 0..n {
            ctx.check("gradient", "nested T=Dual64 n=3", &format!("g[{i}].re"), g[i].re, p.d(&[i], &pt), json!({"point": pt}));
            let hd: f64 = (0..n).map(|j| p.d(&[i, j], &pt) * dir[j] as f64).sum();
            ctx.check("gradient", "nested T=Dual64 n=3", &format!("g[{i}].eps"), g[i].eps, hd, json!({"point": pt}));
        }
    }
    // nested use of the scalar drivers: the input is a Dual64 with a non-unit direction, so every
    // returned component carries the next derivative in its eps part (4th order for third_derivative)
    // (which = 2: the polynomial is multiplied by t.recip() * t, the constant one, exact at powers of
    // two - this brings the chain rule of each outer type, applied to a dual inner type, into the path;
    // recip().recip() would not do: the identity has a constant derivative, so a chain rule that drops
    // the inner parts of f' drops nothing)
    for which in 0..3 {
        let p0 = Poly::new(1, which + 30, 5);
        let xlist: [i64; 3] = if which == 2 { [2, -1, 4] } else { [2, -1, 3] };
        for &x in &xlist {
            let xs = [x];
            let p = if which == 0 { p0.clone().over(&xs) } else { p0.clone() };
            let dir = 3.0;
            let xd = Dual64::new(x as f64, dir);
            let c = json!({"x": x, "direction": dir, "rational": which == 0, "times_recip_times_t": which == 2});
            let dn = |k: usize| p.d(&vec![0usize; k], &xs);
            let (f, d1) = first_derivative(|t: Dual<Dual64, f64>| if which == 2 { p.eval(&[t]) * (t.recip() * t) } else { p.eval(&[t]) }, xd);
            for (name, got, k) in [("value", f, 0usize), ("d1", d1, 1)] {
                ctx.check("first_derivative", "nested T=Dual64", &format!("{name}.re"), got.re, dn(k), c.clone());
                ctx.check("first_derivative", "nested T=Dual64", &format!("{name}.eps"), got.eps, dir * dn(k + 1), c.clone());
            }
            let (f, d1, d2) = second_derivative(|t: Dual2<Dual64, f64>| if which == 2 { p.eval(&[t]) * (t.recip() * t) } else { p.eval(&[t]) }, xd);
            for (name, got, k) in [("value", f, 0usize), ("d1", d1, 1), ("d2", d2, 2)] {
                ctx.check("second_derivative", "nested T=Dual64", &format!("{name}.re"), got.re, dn(k), c.clone());
                ctx.check("second_derivative", "nested T=Dual64", &format!("{name}.eps"), got.eps, dir * dn(k + 1), c.clone());
            }
            let (f, d1, d2, d3) = third_derivative(|t: Dual3<Dual64, f64>| if which == 2 { p.eval(&[t]) * (t.recip() * t) } else { p.eval(&[t]) }, xd);
            for (name, got, k) in [("value", f, 0usize), ("d1", d1, 1), ("d2", d2, 2), ("d3", d3, 3)] {
                ctx.check("third_derivative", "nested T=Dual64", &format!("{name}.re"), got.re, dn(k), c.clone());
                ctx.check("third_derivative", "nested T=Dual64", &format!("{name}.eps"), got.eps, dir * dn(k + 1), c.clone());
            }
        }
        if which == 2 {
            continue;
        }
        // mixed partials with nested inputs: directions (2, -1) on (x, y)
        let p = Poly::new(2, which + 32, 4);
        let pt = point(2, which);
        let p = if which == 0 { p.over(&pt) } else { p };
        let (dx, dy) = (2.0, -1.0);
        let r = second_partial_derivative(|x: HyperDual<Dual64, f64>, y: HyperDual<Dual64, f64>| p.eval(&[x, y]), Dual64::new(pt[0] as f64, dx), Dual64::new(pt[1] as f64, dy));
        let c = json!({"point": pt, "directions": [dx, dy], "rational": which == 0});
        let items: [(&str, Dual64, &[usize]); 4] = [("value", r.0, &[]), ("dx", r.1, &[0]), ("dy", r.2, &[1]), ("dxdy", r.3, &[0, 1])];
        for (name, got, vars) in items {
            let mut vx = vars.to_vec();
            vx.push(0);
            let mut vy = vars.to_vec();
            vy.push(1);
            ctx.check("second_partial_derivative", "nested T=Dual64", &format!("{name}.re"), got.re, p.d(vars, &pt), c.clone());
            ctx.check("second_partial_derivative", "nested T=Dual64", &format!("{name}.eps"), got.eps, dx * p.d(&vx, &pt) + dy * p.d(&vy, &pt), c.clone());
        }
    }
    // a two-argument function through the vector and mixed-partial drivers: theta = atan2(y, x) in
    // both of its branches (|y| > |x| and |y| < |x|) and all four quadrants; analytic derivatives
    // theta_x = -y/r^2, theta_y = x/r^2, theta_xx = 2xy/r^4 = -theta_yy, theta_xy = (y^2 - x^2)/r^4
    for &(xv, yv) in &[(0.4, 1.3), (-0.4, 1.3), (1.3, -0.4), (-1.3, -0.4), (0.4, -1.3), (-1.3, 0.4)] {
        let r2: f64 = xv * xv + yv * yv;
        let (tx, ty) = (-yv / r2, xv / r2);
        let (txx, txy) = (2.0 * xv * yv / (r2 * r2), (yv * yv - xv * xv) / (r2 * r2));
        let tol = 64.0 * 1.1e-16 * (1.0 + 1.0 / r2 + 1.0 / (r2 * r2)) * 4.0;
        let shape = format!("atan2 at ({xv},{yv})");
        let dd = |v: f64| DD::f(v);
        let (_, g) = gradient(|v: SVector<DualSVec64<2>, 2>| v[1].clone().atan2(v[0].clone()), SVector::<f64, 2>::new(xv, yv));
        ctx.check_tol("gradient", &shape, "g[0]", g[0], dd(tx), tol);
        ctx.check_tol("gradient", &shape, "g[1]", g[1], dd(ty), tol);
        let (_, g, h) = hessian(|v: DVector<Dual2DVec64>| v[1].clone().atan2(v[0].clone()), DVector::from_vec(vec![xv, yv]));
        ctx.check_tol("hessian", &shape, "g[0]", g[0], dd(tx), tol);
        ctx.check_tol("hessian", &shape, "g[1]", g[1], dd(ty), tol);
        ctx.check_tol("hessian", &shape, "h[(0,0)]", h[(0, 0)], dd(txx), tol);
        ctx.check_tol("hessian", &shape, "h[(0,1)]", h[(0, 1)], dd(txy), tol);
        ctx.check_tol("hessian", &shape, "h[(1,0)]", h[(1, 0)], dd(txy), tol);
        ctx.check_tol("hessian", &shape, "h[(1,1)]", h[(1, 1)], dd(-txx), tol);
        let (_, fx, fy, fxy) = second_partial_derivative(|x: HyperDual64, y: HyperDual64| y.atan2(x), xv, yv);
        ctx.check_tol("second_partial_derivative", &shape, "dx", fx, dd(tx), tol);
        ctx.check_tol("second_partial_derivative", &shape, "dy", fy, dd(ty), tol);
        ctx.check_tol("second_partial_derivative", &shape, "dxdy", fxy, dd(txy), tol);
        let (_, px, py, pxy) = partial_hessian(
            |x: SVector<HyperDualSVec64<1, 1>, 1>, y: SVector<HyperDualSVec64<1, 1>, 1>| y[0].clone().atan2(x[0].clone()),
            SVector::<f64, 1>::new(xv),
            SVector::<f64, 1>::new(yv),
        );
        ctx.check_tol("partial_hessian", &shape, "dx[0]", px[0], dd(tx), tol);
        ctx.check_tol("partial_hessian", &shape, "dy[0]", py[0], dd(ty), tol);
        ctx.check_tol("partial_hessian", &shape, "dxdy[(0,0)]", pxy[(0, 0)], dd(txy), tol);
        let (_, j) = jacobian(
            |v: SVector<DualSVec64<2>, 2>| SVector::<DualSVec64<2>, 2>::from([(v[0].clone() * v[0].clone() + v[1].clone() * v[1].clone()).sqrt(), v[1].clone().atan2(v[0].clone())]),
            SVector::<f64, 2>::new(xv, yv),
        );
        let r = r2.sqrt();
        ctx.check_tol("jacobian", &shape, "j[(0,0)]", j[(0, 0)], dd(xv / r), tol);
        ctx.check_tol("jacobian", &shape, "j[(0,1)]", j[(0, 1)], dd(yv / r), tol);
        ctx.check_tol("jacobian", &shape, "j[(1,0)]", j[(1, 0)], dd(tx), tol);
        ctx.check_tol("jacobian", &shape, "j[(1,1)]", j[(1, 1)], dd(ty), tol);
    }
    // squares formed by powi(2) / powf(2) of a composite value (the product of a number with itself),
    // exact: derivatives of P^2 by the Leibniz rule over the list positions
    {
        let p = Poly::new(4, 41, 2);
        let pt = point(4, 1);
        let dsq = |vars: &[usize]| -> f64 {
            let k = vars.len();
            (0..(1usize << k))
                .map(|mask| {
                    let t: Vec<usize> = (0..k).filter(|i| mask & (1 << i) != 0).map(|i| vars[i]).collect();
                    let u: Vec<usize> = (0..k).filter(|i| mask & (1 << i) == 0).map(|i| vars[i]).collect();
                    p.d(&t, &pt) * p.d(&u, &pt)
                })
                .sum()
        };
        let xv = SVector::<f64, 2>::new(pt[0] as f64, pt[1] as f64);
        let yv = SVector::<f64, 2>::new(pt[2] as f64, pt[3] as f64);
        let (f, fx, fy, fxy) = partial_hessian(
            |x: SVector<HyperDualSVec64<2, 2>, 2>, y: SVector<HyperDualSVec64<2, 2>, 2>| {
                let all: Vec<HyperDualSVec64<2, 2>> = x.iter().chain(y.iter()).cloned().collect();
                p.eval(&all).powi(2)
            },
            xv,
            yv,
        );
        ctx.check("partial_hessian", "square by powi(2)", "value", f, dsq(&[]), json!({"point": pt}));
        for i in 0..2 {
            ctx.check("partial_hessian", "square by powi(2)", &format!("dx[{i}]"), fx[i], dsq(&[i]), json!({"point": pt}));
            ctx.check("partial_hessian", "square by powi(2)", &format!("dy[{i}]"), fy[i], dsq(&[2 + i]), json!({"point": pt}));
            for j in 0..2 {
                ctx.check("partial_hessian", "square by powi(2)", &format!("dxdy[({i},{j})]"), fxy[(i, j)], dsq(&[i, 2 + j]), json!({"point": pt}));
            }
        }
        let xd = DVector::from_vec(pt.iter().map(|v| *v as f64).collect());
        let (_, g, h) = hessian(|v: DVector<Dual2DVec64>| p.eval(v.as_slice()).powf(2.0), xd.clone());
        for i in 0..4 {
            ctx.check("hessian", "square by powf(2)", &format!("g[{i}]"), g[i], dsq(&[i]), json!({"point": pt}));
            for j in 0..4 {
                ctx.check("hessian", "square by powf(2)", &format!("h[({i},{j})]"), h[(i, j)], dsq(&[i, j]), json!({"point": pt}));
            }
        }
        let (_, d1, d2, d3) = third_derivative(|t: Dual3_64| { let q = p.eval(&[t, Dual3_64::from(pt[1] as f64), Dual3_64::from(pt[2] as f64), Dual3_64::from(pt[3] as f64)]); &q * &q }, pt[0] as f64);
        ctx.check("third_derivative", "square by &q * &q", "d1", d1, dsq(&[0]), json!({"point": pt}));
        ctx.check("third_derivative", "square by &q * &q", "d2", d2, dsq(&[0, 0]), json!({"point": pt}));
        ctx.check("third_derivative", "square by &q * &q", "d3", d3, dsq(&[0, 0, 0]), json!({"point": pt}));
    }
    // results whose parts are present in unusual combinations (built by hand, e.g. captured
    // parameters): the drivers must hand back every present part and zeros for absent ones
    {
        use nalgebra::{Const, RowSVector, SMatrix};
        let hm = SMatrix::<f64, 2, 2>::new(1.5, -2.0, 0.25, 4.0);
        let gv = RowSVector::<f64, 2>::new(3.0, -0.5);
        for (pat, v1, v2) in [
            ("v1 absent, v2 present", Derivative::none(), Derivative::some(hm)),
            ("v1 present, v2 absent", Derivative::some(gv), Derivative::none()),
            ("both present", Derivative::some(gv), Derivative::some(hm)),
            ("both absent", Derivative::none(), Derivative::none()),
        ] {
            let want_g = if v1 == Derivative::none() { RowSVector::<f64, 2>::zeros() } else { gv };
            let want_h = if v2 == Derivative::none() { SMatrix::<f64, 2, 2>::zeros() } else { hm };
            let (v1c, v2c) = (v1.clone(), v2.clone());
            let (f, g, h) = hessian(move |_: SVector<Dual2SVec64<2>, 2>| Dual2Vec::<f64, f64, Const<2>>::new(7.0, v1c.clone(), v2c.clone()), SVector::<f64, 2>::new(1.0, 2.0));
            ctx.check("hessian", pat, "value", f, 7.0, json!({}));
            for i in 0..2 {
                ctx.check("hessian", pat, &format!("g[{i}]"), g[i], want_g[i], json!({}));
                for j in 0..2 {
                    ctx.check("hessian", pat, &format!("h[({i},{j})]"), h[(i, j)], want_h[(i, j)], json!({}));
                }
            }
        }
        let e1 = SVector::<f64, 2>::new(1.25, -3.0);
        let e2 = RowSVector::<f64, 2>::new(0.5, 2.5);
        for pat in 0..8usize {
            let (p1, p2, p12) = (pat & 1 != 0, pat & 2 != 0, pat & 4 != 0);
            let name = format!("eps1 {} eps2 {} eps1eps2 {}", p1, p2, p12);
            let r = partial_hessian(
                move |_: SVector<HyperDualSVec64<2, 2>, 2>, _: SVector<HyperDualSVec64<2, 2>, 2>| {
                    HyperDualVec::<f64, f64, Const<2>, Const<2>>::new(
                        -1.5,
                        if p1 { Derivative::some(e1) } else { Derivative::none() },
                        if p2 { Derivative::some(e2) } else { Derivative::none() },
                        if p12 { Derivative::some(hm) } else { Derivative::none() },
                    )
                },
                SVector::<f64, 2>::new(1.0, 2.0),
                SVector::<f64, 2>::new(3.0, 4.0),
            );
            ctx.check("partial_hessian", &name, "value", r.0, -1.5, json!({}));
            for i in 0..2 {
                ctx.check("partial_hessian", &name, &format!("dx[{i}]"), r.1[i], if p1 { e1[i] } else { 0.0 }, json!({}));
                ctx.check("partial_hessian", &name, &format!("dy[{i}]"), r.2[i], if p2 { e2[i] } else { 0.0 }, json!({}));
                for j in 0..2 {
                    ctx.check("partial_hessian", &name, &format!("dxdy[({i},{j})]"), r.3[(i, j)], if p12 { hm[(i, j)] } else { 0.0 }, json!({}));
                }
            }
        }
    }
    // nested use with elementary functions at points of unit slope (exp at 0, ln at 1, sqrt at 1/4):
    // the eps parts of the returned gradient carry the derivative with respect to the inner variable
    {
        // f(x0, x1, x2) = exp(x0) x1 + ln(x2) + sqrt(x1); inner direction t with dx/dt = (1, -2, 3)
        let pt = [0.0, 0.25, 1.0];
        let dir = [1.0, -2.0, 3.0];
        let xv = SVector::<Dual64, 3>::from_fn(|i, _| Dual64::new(pt[i], dir[i]));
        let (f, g) = gradient(|v: SVector<DualVec<Dual64, f64, nalgebra::Const<3>>, 3>| v[0].exp() * v[1].clone() + v[2].ln() + v[1].sqrt(), xv);
        let tol = 64.0 * 1.1e-16 * 16.0;
        let dd = |v: f64| DD::f(v);
        // gradient (e^x0 x1, e^x0 + 1/(2 sqrt x1), 1/x2) = (0.25, 2, 1)
        // Hessian rows: [e^x0 x1, e^x0, 0], [e^x0, -1/(4 x1^1.5), 0], [0, 0, -1/x2^2]
        let h = [[0.25, 1.0, 0.0], [1.0, -2.0, 0.0], [0.0, 0.0, -1.0]];
        let gr = [0.25, 2.0, 1.0];
        ctx.check_tol("gradient", "nested unit slope", "value.re", f.re, dd(0.25 + 0.5), tol);
        ctx.check_tol("gradient", "nested unit slope", "value.eps", f.eps, dd((0..3).map(|j| gr[j] * dir[j]).sum()), tol);
        for i in 0..3 {
            ctx.check_tol("gradient", "nested unit slope", &format!("g[{i}].re"), g[i].re, dd(gr[i]), tol);
            ctx.check_tol("gradient", "nested unit slope", &format!("g[{i}].eps"), g[i].eps, dd((0..3).map(|j| h[i][j] * dir[j]).sum()), tol);
        }
    }
    // closures written with nalgebra's vector API (norm, normalize, dot): these run through the
    // ComplexField / RealField implementations of the dual number types
    {
        let xv = SVector::<f64, 3>::new(1.5, -2.0, 0.5);
        let r = (1.5f64 * 1.5 + 4.0 + 0.25).sqrt();
        let tol = 64.0 * 1.1e-16 * 8.0;
        let dd = |v: f64| DD::f(v);
        let (f, g) = gradient(|v: SVector<DualSVec64<3>, 3>| v.norm(), xv);
        ctx.check_tol("gradient", "nalgebra norm", "value", f, dd(r), tol);
        for i in 0..3 {
            ctx.check_tol("gradient", "nalgebra norm", &format!("g[{i}]"), g[i], dd(xv[i] / r), tol);
        }
        let (_, g) = gradient(|v: DVector<DualDVec64>| v.norm_squared(), DVector::from_vec(vec![1.5, -2.0, 0.5]));
        for i in 0..3 {
            ctx.check_tol("gradient", "nalgebra norm_squared dynamic", &format!("g[{i}]"), g[i], dd(2.0 * xv[i]), tol);
        }
        let (_, j) = jacobian(|v: SVector<DualSVec64<3>, 3>| v.normalize(), xv);
        for i in 0..3 {
            for k in 0..3 {
                let want = (if i == k { 1.0 } else { 0.0 }) / r - xv[i] * xv[k] / (r * r * r);
                ctx.check_tol("jacobian", "nalgebra normalize", &format!("j[({i},{k})]"), j[(i, k)], dd(want), tol);
            }
        }
        let (_, g, h) = hessian(|v: SVector<Dual2SVec64<3>, 3>| v.norm(), xv);
        for i in 0..3 {
            ctx.check_tol("hessian", "nalgebra norm", &format!("g[{i}]"), g[i], dd(xv[i] / r), tol);
            for k in 0..3 {
                let want = (if i == k { 1.0 } else { 0.0 }) / r - xv[i] * xv[k] / (r * r * r);
                ctx.check_tol("hessian", "nalgebra norm", &format!("h[({i},{k})]"), h[(i, k)], dd(want), tol);
            }
        }
        let w = SVector::<f64, 3>::new(0.25, 3.0, -1.0);
        let (_, g) = gradient(|v: SVector<DualSVec64<3>, 3>| v.dot(&w.map(DualSVec64::<3>::from_re)), xv);
        for i in 0..3 {
            ctx.check_tol("gradient", "nalgebra dot", &format!("g[{i}]"), g[i], dd(w[i]), tol);
        }
    }
    // non-polynomial integrands against the Taylor coefficients of the reference
    use Op::*;
    let funs: [(Op, &[f64]); 12] = [
        (Exp, &[-0.625, 1.25]),
        (Sin, &[-2.5, 0.75]),
        (Cos, &[2.0]),
        (Ln, &[0.3125, 17.0]),
        (Sqrt, &[2.5]),
        (Atan, &[-1.0, 3.75]),
        (Tanh, &[0.75]),
        (Recip, &[-0.625]),
        (Cbrt, &[-2.5]),
        (Asinh, &[1.25]),
        (Powi(5), &[-1.0]),
        (Powf(2.5), &[1.25]),
    ];
    for (op, pts) in funs {
        for &x in pts {
            let c = taylor_dd(op.func().unwrap(), DD::f(x), 3);
            let scale: f64 = c.iter().map(|v| v.abs_dd().to_f64()).fold(0.0, f64::max);
            let tol = 512.0 * 1.1e-16 * scale * 6.0;
            let (f, d1) = first_derivative(|t: Dual64| apply_impl::<f64, Dual64>(op, &[t]), x);
            ctx.check_tol("first_derivative", &op.name(), "value", f, c[0], tol);
            ctx.check_tol("first_derivative", &op.name(), "d1", d1, c[1], tol);
            let (_, d1, d2) = second_derivative(|t: Dual2_64| apply_impl::<f64, Dual2_64>(op, &[t]), x);
            ctx.check_tol("second_derivative", &op.name(), "d1", d1, c[1], tol);
            ctx.check_tol("second_derivative", &op.name(), "d2", d2, c[2].mul_f(2.0), tol);
            let (_, d1, d2, d3) = third_derivative(|t: Dual3_64| apply_impl::<f64, Dual3_64>(op, &[t]), x);
            ctx.check_tol("third_derivative", &op.name(), "d1", d1, c[1], tol);
            ctx.check_tol("third_derivative", &op.name(), "d2", d2, c[2].mul_f(2.0), tol);
            ctx.check_tol("third_derivative", &op.name(), "d3", d3, c[3].mul_f(6.0), tol);
        }
    }
}

/// the elementary functions reached through nalgebra's trait path (`ComplexField::tan(z)` - what code
/// generic over `RealField` calls) inside gradient and hessian closures: f(x, y) = g(x y)
macro_rules! field_fn {
    ($ctx:expr, $name:literal, $func:expr, $m:ident, $x:expr, $y:expr) => {{
        let (x0, y0): (f64, f64) = ($x, $y);
        let c = taylor_dd($func, DD::f(x0 * y0), 2);
        let (g1, g2) = (c[1], c[2].mul_f(2.0));
        let scale: f64 = c.iter().map(|v| v.abs_dd().to_f64()).fold(0.0, f64::max) * (1.0 + x0.abs() + y0.abs()).powi(2);
        let tol = 512.0 * 1.1e-16 * scale * 6.0;
        let shape = concat!("field path ", $name);
        // the scalar drivers through the same path
        {
            let u = x0 * y0;
            let (f, d1) = first_derivative(|t: Dual64| nalgebra::ComplexField::$m(t), u);
            $ctx.check_tol("first_derivative", shape, "value", f, c[0], tol);
            $ctx.check_tol("first_derivative", shape, "d1", d1, c[1], tol);
            let (f, d1, d2) = second_derivative(|t: Dual2_64| nalgebra::ComplexField::$m(t), u);
            $ctx.check_tol("second_derivative", shape, "value", f, c[0], tol);
            $ctx.check_tol("second_derivative", shape, "d1", d1, c[1], tol);
            $ctx.check_tol("second_derivative", shape, "d2", d2, c[2].mul_f(2.0), tol);
        }
        let (f, g) = gradient(|v: SVector<DualSVec64<2>, 2>| nalgebra::ComplexField::$m(v[0].clone() * v[1].clone()), SVector::from([x0, y0]));
        $ctx.check_tol("gradient", shape, "value", f, c[0], tol);
        $ctx.check_tol("gradient", shape, "g[0]", g[0], g1.mul_f(y0), tol);
        $ctx.check_tol("gradient", shape, "g[1]", g[1], g1.mul_f(x0), tol);
        let (f, g, h) = hessian(|v: SVector<Dual2SVec64<2>, 2>| nalgebra::ComplexField::$m(v[0].clone() * v[1].clone()), SVector::from([x0, y0]));
        $ctx.check_tol("hessian", shape, "value", f, c[0], tol);
        $ctx.check_tol("hessian", shape, "g[0]", g[0], g1.mul_f(y0), tol);
        $ctx.check_tol("hessian", shape, "h[0,0]", h[(0, 0)], g2.mul_f(y0 * y0), tol);
        $ctx.check_tol("hessian", shape, "h[0,1]", h[(0, 1)], g2.mul_f(x0 * y0).add_dd(g1), tol);
        $ctx.check_tol("hessian", shape, "h[1,0]", h[(1, 0)], g2.mul_f(x0 * y0).add_dd(g1), tol);
        $ctx.check_tol("hessian", shape, "h[1,1]", h[(1, 1)], g2.mul_f(x0 * x0), tol);
        let (f, g) = gradient(|v: DVector<DualDVec64>| nalgebra::ComplexField::$m(v[0].clone() * v[1].clone()), DVector::from_row_slice(&[x0, y0]));
        $ctx.check_tol("gradient", shape, "dyn value", f, c[0], tol);
        $ctx.check_tol("gradient", shape, "dyn g[1]", g[1], g1.mul_f(x0), tol);
        let (_, _, h) = hessian(|v: DVector<Dual2DVec64>| nalgebra::ComplexField::$m(v[0].clone() * v[1].clone()), DVector::from_row_slice(&[x0, y0]));
        $ctx.check_tol("hessian", shape, "dyn h[0,1]", h[(0, 1)], g2.mul_f(x0 * y0).add_dd(g1), tol);
    }};
}

fn field_path_closures(ctx: &mut Ctx) {
    use refmodel::Func;
    field_fn!(ctx, "sin", Func::Sin, sin, 0.5, 1.5);
    field_fn!(ctx, "cos", Func::Cos, cos, 0.5, 1.5);
    field_fn!(ctx, "tan", Func::Tan, tan, 0.5, 1.5);
    field_fn!(ctx, "asin", Func::Asin, asin, 0.5, 1.5);
    field_fn!(ctx, "acos", Func::Acos, acos, 0.5, 1.5);
    field_fn!(ctx, "atan", Func::Atan, atan, 0.5, 1.5);
    field_fn!(ctx, "sinh", Func::Sinh, sinh, 0.5, 1.5);
    field_fn!(ctx, "cosh", Func::Cosh, cosh, 0.5, 1.5);
    field_fn!(ctx, "tanh", Func::Tanh, tanh, 0.5, 1.5);
    field_fn!(ctx, "asinh", Func::Asinh, asinh, 0.5, 1.5);
    field_fn!(ctx, "acosh", Func::Acosh, acosh, 2.0, 0.75);
    field_fn!(ctx, "atanh", Func::Atanh, atanh, 0.5, 1.5);
    field_fn!(ctx, "exp", Func::Exp, exp, 0.5, 1.5);
    field_fn!(ctx, "exp2", Func::Exp2, exp2, 0.5, 1.5);
    field_fn!(ctx, "exp_m1", Func::ExpM1, exp_m1, 0.5, 1.5);
    field_fn!(ctx, "ln", Func::Ln, ln, 0.5, 1.5);
    field_fn!(ctx, "ln_1p", Func::Ln1p, ln_1p, 0.5, 1.5);
    field_fn!(ctx, "log2", Func::Log2, log2, 0.5, 1.5);
    field_fn!(ctx, "log10", Func::Log10, log10, 0.5, 1.5);
    field_fn!(ctx, "sqrt", Func::Sqrt, sqrt, 0.5, 1.5);
    field_fn!(ctx, "cbrt", Func::Cbrt, cbrt, 0.5, 1.5);
    field_fn!(ctx, "recip", Func::Recip, recip, 0.5, 1.5);
}

/// an integrand written with the iterator adaptors, by reference and by value
fn reduce<D>(v: &[D]) -> D
where
    D: DualNum<f64> + std::iter::Sum + for<'a> std::iter::Sum<&'a D> + std::iter::Product + for<'a> std::iter::Product<&'a D>,
{
    let s: D = v.iter().sum();
    let q: D = v.iter().product();
    let s2: D = v.iter().cloned().sum();
    let q2: D = v.iter().cloned().product();
    s * 2.0 + q + s2 * 4.0 + q2 * 8.0
}

/// closures that reduce their arguments with `sum()` / `product()`: f = 6 sum x + 9 prod x
fn iterator_closures(ctx: &mut Ctx) {
    let pt = [2.0f64, -3.0, 5.0];
    let n = 3;
    let prod_except = |skip: &[usize]| (0..n).filter(|k| !skip.contains(k)).map(|k| pt[k]).product::<f64>();
    let fval = 6.0 * pt.iter().sum::<f64>() + 9.0 * prod_except(&[]);
    let c = json!({"point": pt, "integrand": "6 sum(x) + 9 prod(x) through iter().sum(), iter().product(), cloned().sum(), cloned().product()"});
    let (f, g) = gradient(|v: SVector<DualSVec64<3>, 3>| reduce(v.as_slice()), SVector::from(pt));
    ctx.check("gradient", "iterator closure n=3", "value", f, fval, c.clone());
    for i in 0..n {
        ctx.check("gradient", "iterator closure n=3", &format!("g[{i}]"), g[i], 6.0 + 9.0 * prod_except(&[i]), c.clone());
    }
    let (f, g) = gradient(|v: DVector<DualDVec64>| reduce(v.as_slice()), DVector::from_row_slice(&pt));
    ctx.check("gradient", "iterator closure dyn n=3", "value", f, fval, c.clone());
    for i in 0..n {
        ctx.check("gradient", "iterator closure dyn n=3", &format!("g[{i}]"), g[i], 6.0 + 9.0 * prod_except(&[i]), c.clone());
    }
    let (f, g, h) = hessian(|v: SVector<Dual2SVec64<3>, 3>| reduce(v.as_slice()), SVector::from(pt));
    ctx.check("hessian", "iterator closure n=3", "value", f, fval, c.clone());
    for i in 0..n {
        ctx.check("hessian", "iterator closure n=3", &format!("g[{i}]"), g[i], 6.0 + 9.0 * prod_except(&[i]), c.clone());
        for j in 0..n {
            ctx.check("hessian", "iterator closure n=3", &format!("h[{i},{j}]"), h[(i, j)], if i == j { 0.0 } else { 9.0 * prod_except(&[i, j]) }, c.clone());
        }
    }
    let (f, d1, d2, d3) = third_derivative(|x: Dual3_64| reduce(&[x, x * 2.0, x + 1.0]), 2.0);
    // 6 (4x + 1) + 9 (2x^3 + 2x^2) at x = 2
    ctx.check("third_derivative", "iterator closure", "value", f, 6.0 * 9.0 + 9.0 * 24.0, c.clone());
    ctx.check("third_derivative", "iterator closure", "d1", d1, 24.0 + 9.0 * (24.0 + 8.0), c.clone());
    ctx.check("third_derivative", "iterator closure", "d2", d2, 9.0 * (24.0 + 4.0), c.clone());
    ctx.check("third_derivative", "iterator closure", "d3", d3, 9.0 * 12.0, c);
}

fn run_all(st: &mut Stats) {
    let mut ctx = Ctx { st };
    iterator_closures(&mut ctx);
    field_path_closures(&mut ctx);
    grad_static!(ctx, 1, 2, 3, 4, 5, 6);
    jac_static!(ctx, 1, 1, 2, 3, 4, 5, 6);
    jac_static!(ctx, 2, 1, 2, 3, 4, 5, 6);
    jac_static!(ctx, 3, 1, 2, 3, 4, 5, 6);
    jac_static!(ctx, 4, 1, 2, 3, 4, 5, 6);
    jac_static!(ctx, 5, 1, 2, 3, 4, 5, 6);
    jac_static!(ctx, 6, 1, 2, 3, 4, 5, 6);
    phess_static!(ctx, 1, 1, 2, 3, 4);
    phess_static!(ctx, 2, 1, 2, 3, 4);
    phess_static!(ctx, 3, 1, 2, 3, 4);
    phess_static!(ctx, 4, 1, 2, 3, 4);
    phess_static!(ctx, 6, 1, 6);
    phess_static!(ctx, 1, 6);
    dynamic(&mut ctx);
    scalars(&mut ctx);
}

fn main() {
    quiet_panics();
    let cli = cli();
    THOROUGH.store(matches!(cli.mode, Mode::Thorough), std::sync::atomic::Ordering::Relaxed);
    let start = Instant::now();
    let mut stats = Stats::default();
    if let Err(m) = guarded(|| run_all(&mut stats)) {
        stats.violation(Violation { sig: "driver panic".into(), case: json!({}), what: format!("a driver panicked: {m}") });
    }
    if let Some(path) = &cli.replay {
        // re-run the (cheap, deterministic) enumeration and report whether the recorded class still fails
        let v = read_replay(path);
        let sig = v["sig"].as_str().unwrap_or("");
        if let Some((n, viol)) = stats.violations.get(sig) {
            println!("replay: {sig}: {} ({n} cases)", viol.what);
            println!("VIOLATION property={PROP} replay={path}");
            std::process::exit(1);
        }
        println!("replay: property holds on this case");
        std::process::exit(0);
    }
    stats.sample(|| json!({"driver": "jacobian", "shape": "static m=2 n=3", "function": "f_r(x) = sum of all monomials of degree <= 3 with pairwise distinct integer coefficients", "point": point(3, 1)}));
    stats.sample(|| json!({"driver": "third_partial_derivative_vec", "n": 5, "triple": [4, 0, 4]}));
    let rep = Report {
        property: PROP,
        mode: cli.mode,
        seed: cli.seed,
        start,
        rule: format!("{}the twenty public drivers x input lengths n = 0..6 and output lengths m = 1..6", if thorough() { "THOROUGH TIER: dynamic input lengths 0..12 (gradient, hessian, jacobian with m = 1..8), all n^3 index triples of third_partial_derivative_vec for n <= 7; otherwise as the quick tier: " } else { "" }) + " (static where the type system allows: gradient/hessian n = 1..6, jacobian all (m,n) in 1..6 x 1..6, partial_hessian (m,n) <= 4 and (6,1),(6,6),(1,6); dynamic for all lengths incl. 0) x two integer points x asymmetric integer polynomials containing every monomial of degree <= 3 with pairwise distinct coefficients (so every partial up to order 3 is non-zero and no two are equal) and, for every second function, that polynomial divided by a linear form equal to 2 at the point (quotient rules; all values stay small dyadic rationals); all n^3 index triples of third_partial_derivative_vec for n <= 5; try_ variants with unit-struct, String and integer errors; constant / partially constant functions (absent parts); nested use T = Dual64 (gradient, first/second/third_derivative, second_partial_derivative: the eps parts carry one more derivative order); non-polynomial integrands against reference Taylor coefficients; squares through powi(2) / powf(2) / &q * &q; results with hand-built presence patterns (all 4 of Dual2Vec, all 8 of HyperDualVec); closures written with nalgebra's vector API (norm, norm_squared, normalize, dot) and with the iterator adaptors sum() / product() by reference and by value; the 22 elementary functions called through nalgebra's ComplexField path inside gradient / hessian closures (static and dynamic); a polynomial times t.recip() * t (the constant one, through the chain rule) under the nested scalar drivers; polar coordinates (sqrt, atan2 in both branches and all quadrants) through gradient, hessian, jacobian, partial_hessian and second_partial_derivative. Non-trivial = a derivative entry whose exact value is neither 0 nor 1.".into(),
        assumptions: vec!["expected values by symbolic differentiation of the coefficient tables in integer arithmetic (Leibniz rule for the quotient by the linear form); all values are small integers or dyadic rationals, so equality is exact".into()],
        extra: json!({"oracle": "exact integer partial derivatives; Err identity; Ok results bit-equal to the infallible variants"}),
        exhaustive: true,
        caps: vec![],
    };
    std::process::exit(finish(rep, stats));
}
