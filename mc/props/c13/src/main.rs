//! C13 — subset/superset conversions are lossless, coherent and memory-safe.
//! The same enumeration is executed natively (all dims) and, in the thorough tier, under Miri and
//! valgrind (dims <= 3) as per-execution memory monitors (see run.sh).

use explore::*;
use harness::*;
use nalgebra::{Const, DMatrix, Dyn, SMatrix};
use num_dual::*;
use serde_json::json;
use simba::scalar::{SubsetOf, SupersetOf};
use std::time::Instant;
use subject::*;

const PROP: &str = "C13";

const VALS: [f64; 7] = [0.0, 1.5, 1.0 / 3.0, 1e-40, 1e40, -2.25, -0.0];

fn values<F: Flt>(l: &Layout, max: usize) -> Vec<Parts<F>> {
    // every presence pattern x a sweep of the value alphabet through the slots
    let g = l.ngroups();
    let mut out = Vec::new();
    // present parts whose (innermost) real entries are all zeros, negative zeros or values that
    // underflow in single precision, while the derivative parts carried by nested entries are not
    for z in [0.0, -0.0, 1e-60] {
        let vals: Vec<F> = (0..l.nslots()).map(|i| {
            let name = &l.slots[i].name;
            let inner_derivative = name.ends_with(".eps") || name.contains(".v1") || name.contains(".v2") || name.contains(".eps");
            F::from64(if i == 0 { 1.5 } else if inner_derivative { VALS[1 + i % 5] } else { z })
        }).collect();
        out.push(Parts { vals, present: vec![true; g] });
    }
    // a non-zero real part that rounds to zero in single precision (and one that overflows)
    for re in [1e-50, -1e-60, 1e60] {
        let vals: Vec<F> = (0..l.nslots()).map(|i| F::from64(if i == 0 { re } else { VALS[1 + i % 5] })).collect();
        out.push(Parts { vals: vals.clone(), present: vec![true; g] });
        out.push(Parts { vals, present: vec![false; g] });
    }
    // non-finite real parts and a non-finite entry in a present part (they convert like any value)
    // (not under Miri, which makes the sign and payload of a NaN produced by a float cast
    // non-deterministic: the bit-for-bit comparisons between two conversion routes would differ)
    let nonfinite: &[f64] = if cfg!(miri) { &[f64::INFINITY, f64::NEG_INFINITY] } else { &[f64::NAN, f64::INFINITY, f64::NEG_INFINITY] };
    for &re in nonfinite {
        let vals: Vec<F> = (0..l.nslots()).map(|i| F::from64(if i == 0 { re } else { VALS[1 + i % 5] })).collect();
        out.push(Parts { vals, present: vec![true; g] });
        let vals: Vec<F> = (0..l.nslots()).map(|i| F::from64(if i == 1 { re } else { VALS[1 + i % 5] })).collect();
        out.push(Parts { vals, present: vec![true; g] });
    }
    for pat in 0..(1usize << g) {
        let present: Vec<bool> = (0..g).map(|i| pat & (1 << i) == 0).collect();
        for shift in 0..VALS.len() {
            let vals: Vec<F> = (0..l.nslots()).map(|i| F::from64(VALS[(i + shift) % VALS.len()])).collect();
            out.push(Parts { vals, present: present.clone() });
            if out.len() >= max {
                return out;
            }
        }
    }
    out
}

fn alpha_eq<A: Flt, B: Flt>(la: &Layout, a: &Parts<A>, lb: &Layout, b: &Parts<B>, cast: impl Fn(f64) -> f64) -> Option<usize> {
    (0..la.nslots()).find(|&i| {
        let x = cast(a.alpha(la, i).to64());
        let y = b.alpha(lb, i).to64();
        // numerically equal; a zero that is present on both sides must also keep its sign
        // (a present -0.0 must not turn into an absent part either: the rounded value of -0.0 is -0.0)
        let sign_lost = x == 0.0 && y == 0.0 && a.slot_present(la, i) && x.is_sign_negative() != (b.slot_present(lb, i) && y.is_sign_negative());
        !(x == y || (x.is_nan() && y.is_nan())) || sign_lost
    })
}

macro_rules! conv {
    ($st:expr, $sub:ty, $fs:ty, $sup:ty, $fp:ty, $d:expr, $max:expr) => {{
        type Sub = $sub;
        type Sup = $sup;
        type FS = $fs;
        type FP = $fp;
        let d: Dims = $d;
        let ls = <Sub as Subject<FS>>::layout(d);
        let lp = <Sup as Subject<FP>>::layout(d);
        let name = format!("{} -> {}", ls.type_name, lp.type_name);
        let narrow = |v: f64| (v as FS) as f64;
        let widen = |v: f64| (v as FP) as f64;
        // ---- widening and back
        for p in values::<FS>(&ls, $max) {
            let x: Sub = <Sub as Subject<FS>>::build(d, &p);
            $st.evaluations += 6;
            $st.transitions += 6;
            let key = hash64(&(name.as_str(), "widen", p.bits(), p.present.clone()));
            $st.state(key);
            $st.nontrivial(key);
            let up: Sup = SubsetOf::<Sup>::to_superset(&x);
            let upp = <Sup as Subject<FP>>::parts(&up, d);
            $st.outcome(hash64(&upp.bits()));
            let mut fail = |what: String| {
                $st.violation(Violation { sig: format!("convert {name} {}", what.split(':').next().unwrap()), case: json!({"conversion": name, "value": parts_to_json(&p)}), what });
            };
            if let Some(i) = alpha_eq(&ls, &p, &lp, &upp, widen) {
                fail(format!("to_superset: slot {} not preserved", ls.slots[i].name));
            }
            let up2: Sup = <Sup as SupersetOf<Sub>>::from_subset(&x);
            if <Sup as Subject<FP>>::parts(&up2, d).bits() != upp.bits() {
                fail("from_subset: differs from to_superset".into());
            }
            if !<Sub as SubsetOf<Sup>>::is_in_subset(&up) {
                fail("is_in_subset: false for a widened value".into());
            }
            match <Sub as SubsetOf<Sup>>::from_superset(&up) {
                Some(back) => {
                    let bp = <Sub as Subject<FS>>::parts(&back, d);
                    if FS::PREC <= FP::PREC {
                        if let Some(i) = alpha_eq(&ls, &p, &ls, &bp, |v| v) {
                            fail(format!("roundtrip: slot {} changed", ls.slots[i].name));
                        }
                    }
                }
                None => fail("from_superset: None although is_in_subset is true (round trip of a widened value)".into()),
            }
            match <Sup as SupersetOf<Sub>>::to_subset(&up) {
                Some(back) => {
                    let bp = <Sub as Subject<FS>>::parts(&back, d);
                    if FS::PREC <= FP::PREC {
                        if let Some(i) = alpha_eq(&ls, &p, &ls, &bp, |v| v) {
                            fail(format!("to_subset: slot {} changed", ls.slots[i].name));
                        }
                    }
                }
                None => fail("to_subset: None although is_in_subset is true".into()),
            }
            let un: Sub = <Sub as SubsetOf<Sup>>::from_superset_unchecked(&up);
            let unp = <Sub as Subject<FS>>::parts(&un, d);
            if FS::PREC <= FP::PREC {
                if let Some(i) = alpha_eq(&ls, &p, &ls, &unp, |v| v) {
                    fail(format!("from_superset_unchecked: slot {} changed", ls.slots[i].name));
                }
            }
        }
        // ---- narrowing of arbitrary superset values
        for p in values::<FP>(&lp, $max) {
            let y: Sup = <Sup as Subject<FP>>::build(d, &p);
            $st.evaluations += 4;
            $st.transitions += 4;
            let key = hash64(&(name.as_str(), "narrow", p.bits(), p.present.clone()));
            $st.state(key);
            $st.nontrivial(key);
            let member = <Sub as SubsetOf<Sup>>::is_in_subset(&y);
            let member2 = <Sup as SupersetOf<Sub>>::is_in_subset(&y);
            let checked = <Sub as SubsetOf<Sup>>::from_superset(&y);
            let unchecked: Sub = <Sub as SubsetOf<Sup>>::from_superset_unchecked(&y);
            let unp = <Sub as Subject<FS>>::parts(&unchecked, d);
            $st.outcome(hash64(&(unp.bits(), member)));
            let mut fail = |what: String| {
                $st.violation(Violation { sig: format!("convert {name} {}", what.split(':').next().unwrap()), case: json!({"conversion": name, "value": parts_to_json(&p)}), what });
            };
            if member != member2 {
                fail("is_in_subset: SubsetOf and SupersetOf views disagree".into());
            }
            if checked.is_some() != member {
                fail(format!("from_superset: is_some() = {} but is_in_subset = {member}", checked.is_some()));
            }
            if let Some(i) = alpha_eq(&lp, &p, &ls, &unp, narrow) {
                fail(format!("from_superset_unchecked: slot {} is not the per-part cast", lp.slots[i].name));
            }
            if let Some(c) = checked {
                let cp = <Sub as Subject<FS>>::parts(&c, d);
                if let Some(i) = alpha_eq(&lp, &p, &ls, &cp, narrow) {
                    fail(format!("from_superset: slot {} is not the per-part cast", lp.slots[i].name));
                }
            }
            // matrices of dual numbers through nalgebra::convert / try_convert / cast
            let ms = SMatrix::<Sup, 2, 2>::from_fn(|i, j| if (i + j) % 2 == 0 { y.clone() } else { <Sup as Subject<FP>>::build(d, &Parts { vals: p.vals.iter().map(|v| -*v).collect(), present: p.present.clone() }) });
            let md = DMatrix::<Sup>::from_fn(2, 3, |i, j| ms[(i, j % 2)].clone());
            let tc: Option<SMatrix<Sub, 2, 2>> = nalgebra::try_convert(ms.clone());
            let tcd: Option<DMatrix<Sub>> = nalgebra::try_convert(md.clone());
            if tc.is_some() != member || tcd.is_some() != member {
                fail(format!("try_convert: is_some() = {} / {} but is_in_subset = {member}", tc.is_some(), tcd.is_some()));
            }
            let cu: SMatrix<Sub, 2, 2> = nalgebra::convert_unchecked(ms.clone());
            let cud: DMatrix<Sub> = nalgebra::convert_unchecked(md.clone());
            for (i, j) in [(0usize, 0usize), (1, 0), (0, 1)] {
                let want = <Sup as Subject<FP>>::parts(&ms[(i, j)], d);
                let got = <Sub as Subject<FS>>::parts(&cu[(i, j)], d);
                let gotd = <Sub as Subject<FS>>::parts(&cud[(i, j)], d);
                if alpha_eq(&lp, &want, &ls, &got, narrow).is_some() || alpha_eq(&lp, &want, &ls, &gotd, narrow).is_some() {
                    fail("convert_unchecked: matrix entry is not the per-part cast".into());
                }
            }
            // widening casts of matrices
            let back: SMatrix<Sup, 2, 2> = nalgebra::convert(cu.clone());
            let backd: DMatrix<Sup> = cud.clone().cast::<Sup>();
            for (i, j) in [(0usize, 0usize), (1, 1)] {
                let a = <Sub as Subject<FS>>::parts(&cu[(i, j)], d);
                let b = <Sup as Subject<FP>>::parts(&back[(i, j)], d);
                let c = <Sup as Subject<FP>>::parts(&backd[(i, j)], d);
                if alpha_eq(&ls, &a, &lp, &b, widen).is_some() || alpha_eq(&ls, &a, &lp, &c, widen).is_some() {
                    fail("convert/cast: widening a matrix entry changed a part".into());
                }
            }
        }
    }};
}

macro_rules! float_lift {
    ($st:expr, $ty:ty, $f:ty, $fl:ty, $d:expr) => {{
        type D = $ty;
        type F = $f;
        let d: Dims = $d;
        let l = <D as Subject<F>>::layout(d);
        let name = format!("{} <-> {}", stringify!($fl), l.type_name);
        for &v in &[0.0 as $fl, -0.0, 1.5, -2.25, 1.0 / 3.0, 1e-30, 1e30, <$fl>::INFINITY, <$fl>::NEG_INFINITY, <$fl>::MAX] {
            $st.evaluations += 3;
            let x: D = <D as SupersetOf<$fl>>::from_subset(&v);
            let p = <D as Subject<F>>::parts(&x, d);
            let mut fail = |what: String| {
                $st.violation(Violation { sig: format!("lift {name} {}", what.split(':').next().unwrap()), case: json!({"conversion": name, "value": v as f64}), what });
            };
            if p.vals[0] as f64 != (v as F) as f64 || (p.vals[0] as f64).is_sign_negative() != (v as f64).is_sign_negative() || (1..l.nslots()).any(|i| p.alpha(&l, i) != 0.0) {
                fail("from_subset: lifting a float is not a constant with that real part".into());
            }
            if !<D as SupersetOf<$fl>>::is_in_subset(&x) {
                fail("is_in_subset: false for a lifted float".into());
            }
        }
        for p in values::<F>(&l, 24) {
            let x: D = <D as Subject<F>>::build(d, &p);
            $st.evaluations += 2;
            $st.state(hash64(&(name.as_str(), p.bits(), p.present.clone())));
            let r: $fl = <D as SupersetOf<$fl>>::to_subset_unchecked(&x);
            let want = p.vals[0] as $fl;
            if !(r == want || (r.is_nan() && want.is_nan())) {
                $st.violation(Violation { sig: format!("lift {name} to_subset_unchecked"), case: json!({"conversion": name, "value": parts_to_json(&p)}), what: "to_subset_unchecked: extracting a float does not yield the real part".into() });
            }
            let c: Option<$fl> = <D as SupersetOf<$fl>>::to_subset(&x);
            if c.is_some() != <D as SupersetOf<$fl>>::is_in_subset(&x) || c.map_or(false, |c| !(c == want || (c.is_nan() && want.is_nan()))) {
                $st.violation(Violation { sig: format!("lift {name} to_subset"), case: json!({"conversion": name, "value": parts_to_json(&p)}), what: "to_subset: not coherent with is_in_subset / the real part".into() });
            }
            // "extracting a float yields the real part": whether the checked extraction succeeds may
            // depend on the real part only - the same number with its derivative parts dropped must
            // give the same answer (and both float widths are asked through all_widths!)
            $st.evaluations += 1;
            let konst: D = <D as From<F>>::from(p.vals[0]);
            let ck: Option<$fl> = <D as SupersetOf<$fl>>::to_subset(&konst);
            if ck.is_some() != c.is_some() || <D as SupersetOf<$fl>>::is_in_subset(&konst) != <D as SupersetOf<$fl>>::is_in_subset(&x) {
                $st.violation(Violation { sig: format!("lift {name} extraction depends on derivative parts"), case: json!({"conversion": name, "value": parts_to_json(&p)}), what: format!("checked extraction of a float: is_some() = {} for the number but {} for the constant with the same real part", c.is_some(), ck.is_some()) });
            }
        }
    }};
}

macro_rules! all_widths {
    ($st:expr, $max:expr, $tmpl:ident, $d:expr $(, $dim:ty)*) => {{
        conv!($st, $tmpl<f32, f32 $(, $dim)*>, f32, $tmpl<f64, f64 $(, $dim)*>, f64, $d, $max);
        conv!($st, $tmpl<f64, f64 $(, $dim)*>, f64, $tmpl<f64, f64 $(, $dim)*>, f64, $d, $max);
        conv!($st, $tmpl<f32, f32 $(, $dim)*>, f32, $tmpl<f32, f32 $(, $dim)*>, f32, $d, $max);
        conv!($st, $tmpl<f64, f64 $(, $dim)*>, f64, $tmpl<f32, f32 $(, $dim)*>, f32, $d, $max);
        float_lift!($st, $tmpl<f64, f64 $(, $dim)*>, f64, f64, $d);
        float_lift!($st, $tmpl<f64, f64 $(, $dim)*>, f64, f32, $d);
        float_lift!($st, $tmpl<f32, f32 $(, $dim)*>, f32, f32, $d);
        float_lift!($st, $tmpl<f32, f32 $(, $dim)*>, f32, f64, $d);
    }};
}

/// Fresh heap memory is filled with 0x55, so that a slot which the conversion code leaves
/// uninitialised (or drops before writing it) is not accidentally a valid "empty" value: dropping it
/// frees the pointer 0x5555..., which kills the process (reported through the canary run) and is an
/// error under Miri and valgrind.
struct Fill;
/// bytes currently allocated (the leak witness: "the conversions leak nothing")
static LIVE: std::sync::atomic::AtomicIsize = std::sync::atomic::AtomicIsize::new(0);
/// frees of a block that is not live (double free / free of a dangling copy)
static BAD_FREES: std::sync::atomic::AtomicUsize = std::sync::atomic::AtomicUsize::new(0);
const MARK_LIVE: u64 = 0x4c49_5645_4c49_5645;
const MARK_DEAD: u64 = 0x4445_4144_4445_4144;
/// Every block carries a header with a live / dead mark: a second free of the same block is
/// counted and NOT handed to the system allocator (glibc would abort only sometimes, depending on
/// what was allocated in between), so that a double free is a deterministic, reported event.
fn header(l: std::alloc::Layout) -> (usize, std::alloc::Layout) {
    let h = l.align().max(16);
    (h, std::alloc::Layout::from_size_align(l.size() + h, h).unwrap())
}
unsafe impl std::alloc::GlobalAlloc for Fill {
    unsafe fn alloc(&self, l: std::alloc::Layout) -> *mut u8 {
        if cfg!(miri) {
            // Miri tracks frees and leaks itself; reaching the header through the pointer the caller
            // hands back is outside what its borrow model allows
            let p = std::alloc::System.alloc(l);
            if !p.is_null() {
                std::ptr::write_bytes(p, 0x55, l.size());
                LIVE.fetch_add(l.size() as isize, std::sync::atomic::Ordering::Relaxed);
            }
            return p;
        }
        let (h, big) = header(l);
        let p = std::alloc::System.alloc(big);
        if p.is_null() {
            return p;
        }
        std::ptr::write_bytes(p, 0x55, big.size());
        (p as *mut u64).write(MARK_LIVE);
        LIVE.fetch_add(l.size() as isize, std::sync::atomic::Ordering::Relaxed);
        p.add(h)
    }
    unsafe fn dealloc(&self, p: *mut u8, l: std::alloc::Layout) {
        if cfg!(miri) {
            LIVE.fetch_sub(l.size() as isize, std::sync::atomic::Ordering::Relaxed);
            return std::alloc::System.dealloc(p, l);
        }
        let (h, big) = header(l);
        let base = p.sub(h);
        LIVE.fetch_sub(l.size() as isize, std::sync::atomic::Ordering::Relaxed);
        if (base as *mut u64).read() != MARK_LIVE {
            BAD_FREES.fetch_add(1, std::sync::atomic::Ordering::Relaxed);
            return;
        }
        (base as *mut u64).write(MARK_DEAD);
        std::alloc::System.dealloc(base, big)
    }
    unsafe fn alloc_zeroed(&self, l: std::alloc::Layout) -> *mut u8 {
        let p = self.alloc(l);
        if !p.is_null() {
            std::ptr::write_bytes(p, 0, l.size());
        }
        p
    }
    unsafe fn realloc(&self, p: *mut u8, l: std::alloc::Layout, n: usize) -> *mut u8 {
        let nl = std::alloc::Layout::from_size_align_unchecked(n, l.align());
        let q = self.alloc(nl);
        if !q.is_null() {
            std::ptr::copy_nonoverlapping(p, q, l.size().min(n));
            self.dealloc(p, l);
        }
        q
    }
}

/// "leak nothing": the whole conversion enumeration (dims <= 3) is executed repeatedly, all its
/// results and the bookkeeping of the run are dropped, and the number of live heap bytes must return
/// to where it was (after one warm-up run that initialises lazily created globals)
fn leak_check(st: &mut Stats) -> Vec<isize> {
    let run = || {
        let before = LIVE.load(std::sync::atomic::Ordering::SeqCst);
        {
            let mut tmp = Stats::default();
            let _ = guarded(|| run_all(&mut tmp, 3, 4));
        }
        LIVE.load(std::sync::atomic::Ordering::SeqCst) - before
    };
    let _warm = run();
    let deltas: Vec<isize> = (0..3).map(|_| run()).collect();
    st.evaluations += 3;
    let bad = BAD_FREES.load(std::sync::atomic::Ordering::SeqCst);
    if bad > 0 {
        st.violation(Violation {
            sig: "memory double free".into(),
            case: json!({"enumeration": "all conversions, dimensions <= 3", "frees_of_blocks_that_are_not_live": bad}),
            what: format!("{bad} frees of heap blocks that were not live (a conversion result shares its storage with the source, or a value is dropped twice)"),
        });
    }
    if deltas.iter().any(|d| *d != 0) {
        st.violation(Violation {
            sig: "memory leak".into(),
            case: json!({"enumeration": "all conversions, dimensions <= 3, run three times after a warm-up", "live_byte_growth_per_run": deltas}),
            what: format!("heap bytes still allocated after the conversion enumeration and all its results were dropped: growth per run {deltas:?}"),
        });
    }
    deltas
}
#[global_allocator]
static ALLOC: Fill = Fill;

/// conversions of vector dual numbers whose inner number type owns heap memory (a dynamically sized
/// dual number): the element-wise conversion loops handle values with destructors there
fn heap_inner(st: &mut Stats) {
    use nalgebra::{DVector, SVector};
    type In64 = DualDVec64;
    type In32 = DualDVec32;
    let inner = |re: f64, g: &[f64]| In64::new(re, Derivative::some(DVector::from_row_slice(g)));
    let flat64 = |x: &In64| -> Vec<f64> { std::iter::once(x.re).chain(x.eps.clone().unwrap_generic(Dyn(3), Const::<1>).iter().copied()).collect() };
    let flat32 = |x: &In32| -> Vec<f64> { std::iter::once(x.re as f64).chain(x.eps.clone().unwrap_generic(Dyn(3), Const::<1>).iter().map(|v| *v as f64)).collect() };
    let entries = [inner(1.5, &[0.5, -2.0, 0.25]), inner(-0.75, &[1.0 / 3.0, 4.0, -1.5]), inner(2.25, &[0.0, 1e-3, 7.0])];
    let mut fail = |st: &mut Stats, what: String| {
        st.violation(Violation { sig: format!("convert heap-inner {}", what.split(':').next().unwrap()), case: json!({"conversion": "DualVec<DualDVec64> -> DualVec<DualDVec32>"}), what });
    };
    let cast = |v: &Vec<f64>| -> Vec<f64> { v.iter().map(|x| (*x as f32) as f64).collect() };
    // DualVec<DualDVec64, f64, 2> and the dynamic variant, checked / unchecked narrowing and widening back
    {
        type Sup = DualVec<In64, f64, Const<2>>;
        type Sub = DualVec<In32, f32, Const<2>>;
        let x = Sup::new(entries[0].clone(), Derivative::some(SVector::<In64, 2>::from([entries[1].clone(), entries[2].clone()])));
        st.evaluations += 4;
        let member = <Sub as SubsetOf<Sup>>::is_in_subset(&x);
        let checked = <Sub as SubsetOf<Sup>>::from_superset(&x);
        let unchecked: Sub = <Sub as SubsetOf<Sup>>::from_superset_unchecked(&x);
        if !member || checked.is_none() {
            fail(st, format!("from_superset: is_in_subset = {member}, is_some = {}", checked.is_some()));
        }
        for (name, y) in [("from_superset", checked), ("from_superset_unchecked", Some(unchecked))] {
            if let Some(y) = y {
                let e = y.eps.clone().unwrap_generic(Const::<2>, Const::<1>);
                let ok = flat32(&y.re) == cast(&flat64(&entries[0])) && flat32(&e[0]) == cast(&flat64(&entries[1])) && flat32(&e[1]) == cast(&flat64(&entries[2]));
                if !ok {
                    fail(st, format!("{name}: the narrowed parts are not the per-part casts"));
                }
                let back: Sup = SubsetOf::<Sup>::to_superset(&y);
                let eb = back.eps.clone().unwrap_generic(Const::<2>, Const::<1>);
                if flat64(&eb[1]) != cast(&flat64(&entries[2])) {
                    fail(st, format!("{name}: widening the narrowed value back changed a part"));
                }
            }
        }
    }
    {
        type Sup = Dual2Vec<In64, f64, Dyn>;
        type Sub = Dual2Vec<In32, f32, Dyn>;
        let v1 = nalgebra::OMatrix::<In64, nalgebra::U1, Dyn>::from_iterator(2, [entries[1].clone(), entries[2].clone()]);
        let v2 = nalgebra::OMatrix::<In64, Dyn, Dyn>::from_fn(2, 2, |i, j| entries[(i + 2 * j) % 3].clone());
        let x = Sup::new(entries[0].clone(), Derivative::some(v1), Derivative::some(v2));
        st.evaluations += 2;
        match <Sub as SubsetOf<Sup>>::from_superset(&x) {
            Some(y) => {
                let h = y.v2.clone().unwrap_generic(Dyn(2), Dyn(2));
                if flat32(&h[(1, 0)]) != cast(&flat64(&entries[1])) || flat32(&h[(0, 1)]) != cast(&flat64(&entries[2])) {
                    fail(st, "from_superset Dual2Vec: the narrowed Hessian part is not the per-part cast".into());
                }
            }
            None => fail(st, "from_superset Dual2Vec: None for a representable value".into()),
        }
    }
}

fn run_all(st: &mut Stats, max_dim: usize, max_vals: usize) {
    all_widths!(st, max_vals, Dual, Dims::NONE);
    all_widths!(st, max_vals, Dual2, Dims::NONE);
    // nested scalar types (the conversions recurse through the inner type)
    conv!(st, Dual<Dual32, f32>, f32, Dual<Dual64, f64>, f64, Dims::NONE, max_vals);
    conv!(st, Dual<Dual64, f64>, f64, Dual<Dual32, f32>, f32, Dims::NONE, max_vals);
    conv!(st, Dual2<Dual32, f32>, f32, Dual2<Dual64, f64>, f64, Dims::NONE, max_vals);
    conv!(st, Dual<Dual2_64, f64>, f64, Dual<Dual2_32, f32>, f32, Dims::NONE, max_vals);
    // nested vector types: the entries of the derivative parts are dual numbers themselves
    conv!(st, DualVec<Dual32, f32, Const<2>>, f32, DualVec<Dual64, f64, Const<2>>, f64, Dims::n(2), max_vals);
    conv!(st, DualVec<Dual64, f64, Const<2>>, f64, DualVec<Dual32, f32, Const<2>>, f32, Dims::n(2), max_vals);
    conv!(st, Dual2Vec<Dual64, f64, Const<2>>, f64, Dual2Vec<Dual32, f32, Const<2>>, f32, Dims::n(2), max_vals);
    conv!(st, DualVec<Dual64, f64, Dyn>, f64, DualVec<Dual32, f32, Dyn>, f32, Dims::n(2), max_vals);
    heap_inner(st);
    for n in 0..=max_dim {
        all_widths!(st, max_vals, DualVec, Dims::n(n), Dyn);
        all_widths!(st, max_vals, Dual2Vec, Dims::n(n), Dyn);
    }
    all_widths!(st, max_vals, DualVec, Dims::n(0), Const<0>);
    all_widths!(st, max_vals, DualVec, Dims::n(1), Const<1>);
    all_widths!(st, max_vals, DualVec, Dims::n(2), Const<2>);
    all_widths!(st, max_vals, DualVec, Dims::n(3), Const<3>);
    all_widths!(st, max_vals, Dual2Vec, Dims::n(0), Const<0>);
    all_widths!(st, max_vals, Dual2Vec, Dims::n(1), Const<1>);
    all_widths!(st, max_vals, Dual2Vec, Dims::n(2), Const<2>);
    all_widths!(st, max_vals, Dual2Vec, Dims::n(3), Const<3>);
    if max_dim > 3 {
        all_widths!(st, max_vals, DualVec, Dims::n(4), Const<4>);
        all_widths!(st, max_vals, DualVec, Dims::n(5), Const<5>);
        all_widths!(st, max_vals, DualVec, Dims::n(6), Const<6>);
        all_widths!(st, max_vals, Dual2Vec, Dims::n(4), Const<4>);
        all_widths!(st, max_vals, Dual2Vec, Dims::n(5), Const<5>);
        all_widths!(st, max_vals, Dual2Vec, Dims::n(6), Const<6>);
    }
}

fn main() {
    quiet_panics();
    // `c13 monitor` = the reduced enumeration executed under Miri / valgrind: prints a summary
    // line and exits 0/1, writes no files
    let args: Vec<String> = std::env::args().collect();
    if args.get(1).map(|s| s.as_str()) == Some("canary") {
        // the full native enumeration in a subprocess of its own: if the library's unsafe code
        // corrupts memory the process may die; run.sh turns that into a violation
        let mut stats = Stats::default();
        run_all(&mut stats, 6, 24);
        println!("canary: evaluations={}", stats.evaluations);
        std::process::exit(0);
    }
    if args.get(1).map(|s| s.as_str()) == Some("monitor") {
        let mut stats = Stats::default();
        run_all(&mut stats, 2, 4);
        println!("monitor: evaluations={} violation_classes={}", stats.evaluations, stats.violations.len());
        std::process::exit(if stats.violations.is_empty() { 0 } else { 1 });
    }
    let cli = cli();
    let start = Instant::now();
    let mut stats = Stats::default();
    if let Ok(crash) = std::env::var("C13_CRASH") {
        stats.evaluations += 1;
        stats.violation(Violation {
            sig: "memory crash".into(),
            case: json!({"command": "/verif/target/release/c13 canary", "status": crash}),
            what: format!("the conversion enumeration died in a subprocess ({crash}): invalid memory access in the conversion code"),
        });
    } else if let Err(m) = guarded(|| run_all(&mut stats, 6, if cli.mode == Mode::Quick { 24 } else { 1000 })) {
        stats.violation(Violation { sig: "conversion panic".into(), case: json!({}), what: format!("panicked: {m}") });
    }
    if let Some(path) = &cli.replay {
        let v = read_replay(path);
        let sig = v["sig"].as_str().unwrap_or("");
        if let Some((n, viol)) = stats.violations.get(sig) {
            println!("replay: {sig}: {} ({n} cases)", viol.what);
            println!("VIOLATION property={PROP} replay={path}");
            std::process::exit(1);
        }
        println!("replay: property holds on this case");
        std::process::exit(0);
    }
    let leak = if std::env::var("C13_CRASH").is_err() { leak_check(&mut stats) } else { vec![] };
    // memory monitors (thorough tier): results handed over by run.sh through the environment
    let miri = std::env::var("C13_MIRI").unwrap_or_else(|_| "not run in this tier".into());
    let valgrind = std::env::var("C13_VALGRIND").unwrap_or_else(|_| "not run in this tier".into());
    for (tool, res) in [("miri", &miri), ("valgrind", &valgrind)] {
        if res.starts_with("FAILED") {
            stats.violation(Violation { sig: format!("memory {tool}"), case: json!({"tool": tool}), what: format!("{tool} reported an error on the conversion enumeration: {res}") });
        }
    }
    stats.sample(|| json!({"conversion": "DualVec<f64,Dyn(3)> -> DualVec<f32,Dyn(3)>", "value": {"re": 1.0 / 3.0, "eps": "absent"}, "checks": ["is_in_subset", "from_superset", "from_superset_unchecked", "try_convert on 2x2 and 2x3 matrices"]}));
    let rep = Report {
        property: PROP,
        mode: cli.mode,
        seed: cli.seed,
        start,
        rule: "Dual, DualVec, Dual2, Dual2Vec x (F,F') in {f32,f64}^2 x static dims 0..6 and dynamic lengths 0..6 x every presence pattern x a sweep of the part alphabet {0, 1.5, 1/3, 1e-40 (underflows in f32), 1e40 (overflows), -2.25} x every method: to_superset, from_superset, from_superset_unchecked, is_in_subset (SubsetOf), to_subset, from_subset, is_in_subset (SupersetOf), lifting/extracting f32 and f64 (the checked extraction must answer as for the constant with the same real part), nalgebra::convert / try_convert / convert_unchecked / Matrix::cast on 2x2 static and 2x3 dynamic matrices of dual numbers; a counting global allocator checks that the live heap bytes return to their level after the enumeration is run again and dropped (no leak). Non-trivial: every value (all carry derivative parts or presence patterns).".into(),
        assumptions: vec![
            "simba contract as the reference model: widening is exact and narrowing back is the identity; from_superset(x).is_some() <=> is_in_subset(x) and the value is the per-part `as` cast; lifting a float gives a constant; extracting gives the real part".into(),
            format!("memory monitors on the reduced enumeration (dims <= 2): miri: {miri}; valgrind: {valgrind}"),
        ],
        extra: json!({"miri": miri, "valgrind": valgrind, "live_byte_growth_per_run": leak}),
        exhaustive: true,
        caps: vec![],
    };
    std::process::exit(finish(rep, stats));
}
