#!/bin/sh
# C13 runner: in the thorough tier the reduced conversion enumeration (`c13 monitor`) is also
# executed under Miri (UB, invalid accesses, leaks) and under valgrind memcheck; their verdicts are
# handed to the main binary through the environment and end up in the evidence / as violations.
tier="$1"; shift
# canary: the native enumeration in its own process; death by signal = memory corruption
/verif/target/release/c13 canary >/verif/target/c13-canary.log 2>&1
rc=$?
if [ $rc -ge 128 ] || { [ $rc -ne 0 ] && ! grep -q "^canary:" /verif/target/c13-canary.log; }; then
    C13_CRASH="exit status $rc: $(tail -1 /verif/target/c13-canary.log | cut -c1-120)"
    export C13_CRASH
fi
if [ "$tier" = "thorough" ] && [ $# -eq 0 ]; then
    cd /verif/mc || exit 2
    export CARGO_NET_OFFLINE=true
    if MIRIFLAGS="-Zmiri-disable-isolation" CARGO_TARGET_DIR=/verif/target/miri cargo +nightly miri run --offline -q -p c13 -- monitor >/verif/target/c13-miri.log 2>&1; then
        C13_MIRI="ok: $(grep '^monitor:' /verif/target/c13-miri.log | tail -1)"
    else
        if grep -q "^monitor:" /verif/target/c13-miri.log || grep -qi "undefined behavior\|memory leaked\|error: " /verif/target/c13-miri.log; then
            C13_MIRI="FAILED: $(grep -i -m1 'undefined behavior\|leaked\|error' /verif/target/c13-miri.log)"
        else
            C13_MIRI="unavailable: miri did not run (see /verif/target/c13-miri.log)"
        fi
    fi
    if valgrind --error-exitcode=9 --leak-check=full --errors-for-leak-kinds=definite -q /verif/target/release/c13 monitor >/verif/target/c13-valgrind.log 2>&1; then
        C13_VALGRIND="ok: $(grep '^monitor:' /verif/target/c13-valgrind.log | tail -1)"
    else
        rc=$?
        if [ $rc -eq 9 ]; then
            C13_VALGRIND="FAILED: $(grep -m1 '==' /verif/target/c13-valgrind.log)"
        else
            C13_VALGRIND="unavailable: valgrind exit $rc"
        fi
    fi
    export C13_MIRI C13_VALGRIND
    cd /verif || exit 2
fi
exec /verif/target/release/c13 "$tier" "$@"
