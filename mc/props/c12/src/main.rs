//! C12 — linear algebra over dual numbers differentiates implicitly defined results.
//! The defining identities are evaluated from the implementation's outputs in the reference
//! algebra (double-double jets), in the real part and in every derivative part.

use explore::*;
use harness::*;
use nalgebra::{DMatrix, DVector};
use ndarray::{Array1, Array2};
use num_dual::linalg::{jacobi_eigenvalue, norm, smallest_ev, LU};
use num_dual::*;
use refmodel::{Jet, Scalar, DD};
use serde_json::json;
use std::sync::Arc;
use std::time::Instant;
use subject::*;

const PROP: &str = "C12";
type J = Jet<DD>;

// ------------------------------------------------------------------------------------------------
// real-matrix helpers (f64)

fn det_f64(a: &[Vec<f64>]) -> f64 {
    let n = a.len();
    let mut m: Vec<Vec<f64>> = a.to_vec();
    let mut det = 1.0;
    for i in 0..n {
        let mut p = i;
        for k in i..n {
            if m[k][i].abs() > m[p][i].abs() {
                p = k;
            }
        }
        if m[p][i] == 0.0 {
            return 0.0;
        }
        if p != i {
            m.swap(p, i);
            det = -det;
        }
        det *= m[i][i];
        for k in i + 1..n {
            let f = m[k][i] / m[i][i];
            for j in i..n {
                m[k][j] -= f * m[i][j];
            }
        }
    }
    det
}

fn inv_f64(a: &[Vec<f64>]) -> Option<Vec<Vec<f64>>> {
    let n = a.len();
    let scale0 = norm_inf(a).max(f64::MIN_POSITIVE);
    let mut m: Vec<Vec<f64>> = a.iter().enumerate().map(|(i, r)| { let mut v = r.clone(); v.extend((0..n).map(|j| if i == j { 1.0 } else { 0.0 })); v }).collect();
    for i in 0..n {
        let mut p = i;
        for k in i..n {
            if m[k][i].abs() > m[p][i].abs() {
                p = k;
            }
        }
        // relative to the magnitude of the matrix: conditioning does not depend on scale
        if m[p][i].abs() < 1e-12 * scale0 {
            return None;
        }
        m.swap(p, i);
        let d = m[i][i];
        for j in 0..2 * n {
            m[i][j] /= d;
        }
        for k in 0..n {
            if k != i {
                let f = m[k][i];
                for j in 0..2 * n {
                    m[k][j] -= f * m[i][j];
                }
            }
        }
    }
    Some(m.into_iter().map(|r| r[n..].to_vec()).collect())
}

fn norm_inf(a: &[Vec<f64>]) -> f64 {
    a.iter().map(|r| r.iter().map(|x| x.abs()).sum::<f64>()).fold(0.0, f64::max)
}

fn cond(a: &[Vec<f64>]) -> f64 {
    match inv_f64(a) {
        Some(i) => norm_inf(a) * norm_inf(&i),
        None => f64::INFINITY,
    }
}

/// eigenvalues of a small symmetric real matrix by Jacobi (for the gap filter only)
fn eig_sym(a: &[Vec<f64>]) -> Vec<f64> {
    let n = a.len();
    let mut m = a.to_vec();
    for _ in 0..100 {
        let mut off = 0.0;
        for i in 0..n {
            for j in 0..n {
                if i != j {
                    off += m[i][j] * m[i][j];
                }
            }
        }
        if off < 1e-30 {
            break;
        }
        for p in 0..n {
            for q in p + 1..n {
                if m[p][q].abs() < 1e-300 {
                    continue;
                }
                let theta = (m[q][q] - m[p][p]) / (2.0 * m[p][q]);
                let t = theta.signum() / (theta.abs() + (theta * theta + 1.0).sqrt());
                let t = if theta == 0.0 { 1.0 } else { t };
                let c = 1.0 / (t * t + 1.0).sqrt();
                let s = t * c;
                for k in 0..n {
                    let (akp, akq) = (m[k][p], m[k][q]);
                    m[k][p] = c * akp - s * akq;
                    m[k][q] = s * akp + c * akq;
                }
                for k in 0..n {
                    let (apk, aqk) = (m[p][k], m[q][k]);
                    m[p][k] = c * apk - s * aqk;
                    m[q][k] = s * apk + c * aqk;
                }
            }
        }
    }
    let mut e: Vec<f64> = (0..n).map(|i| m[i][i]).collect();
    e.sort_by(|a, b| a.partial_cmp(b).unwrap());
    e
}

// ------------------------------------------------------------------------------------------------
// jets

fn jz(l: &Layout) -> J {
    Jet::zero(&l.shape)
}
fn jmatmul(l: &Layout, a: &[Vec<J>], b: &[Vec<J>]) -> Vec<Vec<J>> {
    let (n, k, m) = (a.len(), b.len(), b[0].len());
    (0..n).map(|i| (0..m).map(|j| (0..k).fold(jz(l), |acc, t| acc.add(&a[i][t].mul(&b[t][j])))).collect()).collect()
}
fn jabs(a: &[Vec<J>]) -> Vec<Vec<J>> {
    a.iter().map(|r| r.iter().map(|x| x.abs()).collect()).collect()
}
fn jsub(a: &[Vec<J>], b: &[Vec<J>]) -> Vec<Vec<J>> {
    a.iter().zip(b).map(|(r, s)| r.iter().zip(s).map(|(x, y)| x.sub(y)).collect()).collect()
}
fn jadd(a: &[Vec<J>], b: &[Vec<J>]) -> Vec<Vec<J>> {
    a.iter().zip(b).map(|(r, s)| r.iter().zip(s).map(|(x, y)| x.add(y)).collect()).collect()
}
fn jt(a: &[Vec<J>]) -> Vec<Vec<J>> {
    (0..a[0].len()).map(|j| (0..a.len()).map(|i| a[i][j].clone()).collect()).collect()
}
fn jeye(l: &Layout, n: usize) -> Vec<Vec<J>> {
    (0..n).map(|i| (0..n).map(|j| Jet::constant(&l.shape, if i == j { DD::ONE } else { DD::ZERO })).collect()).collect()
}

/// worst |residual| / tolerance over all entries, separately for the real part and the derivative
/// parts; tolerance (normwise, per monomial) = factor * u * amp^deg * sum over entries of the scale
fn worst(l: &Layout, res: &[Vec<J>], scale: &[Vec<J>], factor: f64, amp: f64) -> ((f64, f64), String) {
    let mut w = (0.0f64, 0.0f64);
    let mut at = String::new();
    for (k, m) in l.shape.monos.iter().enumerate() {
        let deg = m.count_ones() as i32;
        let sc: f64 = scale.iter().map(|r| r.iter().map(|x| x.c[k].to_f64()).fold(0.0, f64::max)).fold(0.0, f64::max);
        let tol = factor * 1.1102230246251565e-16 * amp.powi(deg) * sc + 1e-300;
        for i in 0..res.len() {
            for j in 0..res[i].len() {
                let r = res[i][j].c[k].abs_dd().to_f64();
                let ratio = if r.is_nan() { f64::INFINITY } else { r / tol };
                let slot = if k == 0 { &mut w.0 } else { &mut w.1 };
                if ratio > *slot {
                    *slot = ratio;
                    if ratio > 1.0 || at.is_empty() {
                        at = format!("entry ({i},{j}) monomial {m:#b} residual {r:e} tol {tol:e}");
                    }
                }
            }
        }
    }
    (w, at)
}

// ------------------------------------------------------------------------------------------------
// matrices

fn small_matrices(n: usize, alphabet: &[f64]) -> Vec<Vec<Vec<f64>>> {
    let k = alphabet.len();
    let total = k.pow((n * n) as u32);
    (0..total)
        .map(|mut idx| {
            (0..n)
                .map(|_| {
                    (0..n)
                        .map(|_| {
                            let v = alphabet[idx % k];
                            idx /= k;
                            v
                        })
                        .collect()
                })
                .collect()
        })
        .collect()
}

fn base_matrices(n: usize) -> Vec<Vec<Vec<f64>>> {
    // three diagonally dominant integer matrices per size (non-symmetric)
    (0..3)
        .map(|b| {
            (0..n)
                .map(|i| {
                    (0..n)
                        .map(|j| {
                            if i == j {
                                (2 * n + 2 + i + b) as f64 * if (i + b) % 3 == 0 { -1.0 } else { 1.0 }
                            } else {
                                ((i * 3 + j * 5 + b * 7) % 5) as f64 - 2.0
                            }
                        })
                        .collect()
                })
                .collect()
        })
        .collect()
}

fn permutations(n: usize) -> Vec<Vec<usize>> {
    fn rec(cur: &mut Vec<usize>, used: &mut Vec<bool>, out: &mut Vec<Vec<usize>>) {
        let n = used.len();
        if cur.len() == n {
            out.push(cur.clone());
            return;
        }
        for i in 0..n {
            if !used[i] {
                used[i] = true;
                cur.push(i);
                rec(cur, used, out);
                cur.pop();
                used[i] = false;
            }
        }
    }
    let mut out = Vec::new();
    rec(&mut Vec::new(), &mut vec![false; n], &mut out);
    out
}

fn entry<D: Subject<f64>>(d: Dims, l: &Layout, re: f64, salt: usize) -> (D, J) {
    entry_scaled::<D>(d, l, re, salt, 1.0)
}

/// scale of the matrix classes whose entries (real AND derivative parts, so that the whole problem
/// is the same up to a power of two) are scaled
fn class_scale(class: &str) -> f64 {
    match class {
        "scaled-small" => 2f64.powi(-60),
        "scaled-large" => 2f64.powi(50),
        _ => 1.0,
    }
}

fn entry_scaled<D: Subject<f64>>(d: Dims, l: &Layout, re: f64, salt: usize, scale: f64) -> (D, J) {
    let vals: Vec<f64> = (0..l.nslots()).map(|i| if i == 0 { re } else { scale * part_value(i + salt * 7, 1 + (i + salt) % 3) }).collect();
    let p = Parts { vals, present: vec![true; l.ngroups()] };
    (D::build(d, &p), p.to_jet::<DD>(l))
}

fn to_j<D: Subject<f64>>(d: Dims, l: &Layout, x: &D) -> J {
    x.parts(d).to_jet::<DD>(l)
}

struct Ctx<'a> {
    st: &'a mut Stats,
}
impl<'a> Ctx<'a> {
    fn judge(&mut self, routine: &str, tn: &str, n: usize, class: &str, ratios: (f64, f64), at: &str, a: &[Vec<f64>]) {
        let ratio = ratios.0.max(ratios.1);
        let part = if ratios.0.is_infinite() || ratios.1.is_infinite() {
            "nonfinite"
        } else if !(ratios.0 <= 1.0) {
            "real-part"
        } else {
            "derivative-parts-only"
        };
        self.st.evaluations += 1;
        self.st.transitions += 1;
        let key = hash64(&(routine, tn, a.iter().map(|r| r.iter().map(|x| x.to_bits()).collect::<Vec<_>>()).collect::<Vec<_>>()));
        self.st.state(key);
        self.st.nontrivial(key);
        self.st.outcome(hash64(&(routine, ratios.0.to_bits(), ratios.1.to_bits())));
        self.st.ratio(&format!("{routine} n={n}"), ratio, || format!("{tn} {at}"));
        if !(ratio <= 1.0) {
            self.st.violation_with_input(
                Violation {
                    sig: format!("{routine} {tn} n={n} {class} {part}"),
                    case: json!({"routine": routine, "type": tn, "n": n, "real_part": a, "input_hash": format!("{key:016x}")}),
                    what: format!("{routine}: identity violated, worst ratio {ratio:.3e} at {at}"),
                },
                key,
            );
        }
    }
    fn flag(&mut self, routine: &str, tn: &str, n: usize, class: &str, what: String, a: &[Vec<f64>]) {
        self.st.violation(Violation { sig: format!("{routine} {tn} n={n} {class}"), case: json!({"routine": routine, "type": tn, "n": n, "real_part": a}), what });
    }
}

/// determinant by the Leibniz expansion in the jet algebra (value, majorant)
fn leibniz(l: &Layout, a: &[Vec<J>]) -> (J, J) {
    let n = a.len();
    let mut det = jz(l);
    let mut maj = jz(l);
    for p in permutations(n) {
        let mut inv = 0;
        for i in 0..n {
            for j in i + 1..n {
                if p[i] > p[j] {
                    inv += 1;
                }
            }
        }
        let mut t = Jet::constant(&l.shape, DD::ONE);
        let mut ta = Jet::constant(&l.shape, DD::ONE);
        for i in 0..n {
            t = t.mul(&a[i][p[i]]);
            ta = ta.mul(&a[i][p[i]].abs());
        }
        det = if inv % 2 == 0 { det.add(&t) } else { det.sub(&t) };
        maj = maj.add(&ta);
    }
    (det, maj)
}

// ------------------------------------------------------------------------------------------------
// the crate's own routines

fn crate_routines<D: Subject<f64> + Copy>(ctx: &mut Ctx, d: Dims, mats: &[(Vec<Vec<f64>>, &'static str)], eig: &[(Vec<Vec<f64>>, &'static str)]) {
    let l = D::layout(d);
    let l = &l;
    let tn = l.type_name.clone();
    for (a_re, class) in mats {
        let n = a_re.len();
        let c = cond(a_re);
        let mut ad = Array2::<D>::from_elem((n, n), D::from(0.0));
        let mut aj: Vec<Vec<J>> = vec![vec![jz(l); n]; n];
        for i in 0..n {
            for j in 0..n {
                let (v, jv) = entry_scaled::<D>(d, l, a_re[i][j], i * n + j, class_scale(class));
                ad[(i, j)] = v;
                aj[i][j] = jv;
            }
        }
        // the same matrix held in column-major (Fortran) layout, as `a.t().to_owned()` and
        // `from_shape_vec((n, n).f(), ..)` produce: the factorisation must not depend on the layout
        if n >= 2 && (*class == "alphabet" || *class == "row-order") {
            use ndarray::ShapeBuilder;
            let mut af = Array2::<D>::from_elem((n, n).f(), D::from(0.0));
            for i in 0..n {
                for j in 0..n {
                    af[(i, j)] = ad[(i, j)];
                }
            }
            ctx.st.evaluations += 1;
            match (guarded(|| LU::new(af).map(|lu| (lu.determinant(), lu.inverse()))), guarded(|| LU::new(ad.clone()).map(|lu| (lu.determinant(), lu.inverse())))) {
                (Ok(Ok((d1, i1))), Ok(Ok((d2, i2)))) => {
                    let same = to_j(d, l, &d1).c.iter().zip(to_j(d, l, &d2).c.iter()).all(|(a, b)| a.to_f64().to_bits() == b.to_f64().to_bits())
                        && (0..n).all(|i| (0..n).all(|j| to_j(d, l, &i1[(i, j)]).c.iter().zip(to_j(d, l, &i2[(i, j)]).c.iter()).all(|(a, b)| a.to_f64().to_bits() == b.to_f64().to_bits())));
                    if !same {
                        ctx.flag("LU layout", &tn, n, class, "determinant / inverse of the column-major copy differ from those of the row-major matrix".into(), a_re);
                    }
                }
                (Ok(Err(_)), Ok(Err(_))) => {}
                (a, b) => ctx.flag("LU layout", &tn, n, class, format!("the column-major copy gives {} where the row-major matrix gives {}", if matches!(a, Ok(Ok(_))) { "a factorisation" } else { "an error / panic" }, if matches!(b, Ok(Ok(_))) { "a factorisation" } else { "an error / panic" }), a_re),
            }
        }
        let lu = match guarded(|| LU::new(ad.clone())) {
            Ok(Ok(lu)) => lu,
            Ok(Err(_)) => {
                if c.is_finite() && c < 1e6 {
                    ctx.flag("LU::new", &tn, n, class, format!("a matrix with condition number {c:.1} is reported singular"), a_re);
                }
                continue;
            }
            Err(m) => {
                ctx.flag("LU::new", &tn, n, class, format!("panicked: {m}"), a_re);
                continue;
            }
        };
        let amp = 1.0 + c;
        for rhs in 0..2 {
            let mut bd = Array1::<D>::from_elem(n, D::from(0.0));
            let mut bj: Vec<Vec<J>> = vec![vec![jz(l)]; n];
            for i in 0..n {
                let (v, jv) = entry::<D>(d, l, (1 + i * (rhs + 1)) as f64 * if (i + rhs) % 2 == 0 { 1.0 } else { -1.0 }, 100 + i + 10 * rhs);
                bd[i] = v;
                bj[i][0] = jv;
            }
            let x = lu.solve(&bd);
            let xj: Vec<Vec<J>> = (0..n).map(|i| vec![to_j(d, l, &x[i])]).collect();
            let res = jsub(&jmatmul(l, &aj, &xj), &bj);
            let scale = jadd(&jmatmul(l, &jabs(&aj), &jabs(&xj)), &jabs(&bj));
            let (w, at) = worst(l, &res, &scale, 64.0 * n as f64, amp);
            ctx.judge("LU::solve", &tn, n, class, w, &at, a_re);
        }
        let inv = lu.inverse();
        let ij: Vec<Vec<J>> = (0..n).map(|i| (0..n).map(|j| to_j(d, l, &inv[(i, j)])).collect()).collect();
        let res = jsub(&jmatmul(l, &aj, &ij), &jeye(l, n));
        let scale = jadd(&jmatmul(l, &jabs(&aj), &jabs(&ij)), &jeye(l, n));
        let (w, at) = worst(l, &res, &scale, 64.0 * n as f64, amp);
        ctx.judge("LU::inverse", &tn, n, class, w, &at, a_re);
        let det = to_j(d, l, &lu.determinant());
        let (want, maj) = leibniz(l, &aj);
        let (w, at) = worst(l, &[vec![det.sub(&want)]], &[vec![maj]], 64.0 * n as f64, amp);
        ctx.judge("LU::determinant", &tn, n, class, w, &at, a_re);
        // norm of the first column
        let col = Array1::<D>::from_iter((0..n).map(|i| ad[(i, 0)]));
        if a_re.iter().any(|r| r[0] != 0.0) {
            let nr = to_j(d, l, &norm(&col));
            let sq = (0..n).fold(jz(l), |acc, i| acc.add(&aj[i][0].mul(&aj[i][0])));
            let res = nr.mul(&nr).sub(&sq);
            let scale = nr.abs().mul(&nr.abs()).add(&(0..n).fold(jz(l), |acc, i| acc.add(&aj[i][0].abs().mul(&aj[i][0].abs()))));
            let (w, at) = worst(l, &[vec![res]], &[vec![scale]], 64.0, 1.0);
            ctx.judge("norm", &tn, n, class, w, &at, a_re);
        }
    }
    // eigen decomposition of symmetric matrices
    for (a_re, class) in eig {
        let n = a_re.len();
        let ev = eig_sym(a_re);
        let gap = ev.windows(2).map(|w| w[1] - w[0]).fold(f64::INFINITY, f64::min);
        let mut ad = Array2::<D>::from_elem((n, n), D::from(0.0));
        let mut aj: Vec<Vec<J>> = vec![vec![jz(l); n]; n];
        for i in 0..n {
            for j in i..n {
                let (v, jv) = entry_scaled::<D>(d, l, a_re[i][j], i * n + j, class_scale(class));
                ad[(i, j)] = v;
                ad[(j, i)] = v;
                aj[i][j] = jv.clone();
                aj[j][i] = jv;
            }
        }
        let (lam, v) = match guarded(|| jacobi_eigenvalue(ad.clone(), 200)) {
            Ok(r) => r,
            Err(m) => {
                ctx.flag("jacobi_eigenvalue", &tn, n, class, format!("panicked: {m}"), a_re);
                continue;
            }
        };
        if *class == "repeated-diagonal" {
            // repeated eigenvalues: the derivative parts of the eigenvectors are not defined, the real
            // part is - it must be finite, ascending and satisfy A V = V diag(lambda)
            ctx.st.evaluations += 1;
            let lr: Vec<f64> = (0..n).map(|i| lam[i].re()).collect();
            let vr: Vec<Vec<f64>> = (0..n).map(|i| (0..n).map(|j| v[(i, j)].re()).collect()).collect();
            let finite = lr.iter().all(|x| x.is_finite()) && vr.iter().all(|r| r.iter().all(|x| x.is_finite()));
            let resid = (0..n).map(|i| (0..n).map(|j| ((0..n).map(|k| a_re[i][k] * vr[k][j]).sum::<f64>() - vr[i][j] * lr[j]).abs()).fold(0.0, f64::max)).fold(0.0, f64::max);
            if !finite || !(resid <= 1e-12 * norm_inf(a_re).max(1.0)) || lr.windows(2).any(|w| w[1] < w[0]) {
                ctx.flag("jacobi_eigenvalue", &tn, n, class, format!("real part: eigenvalues {lr:?}, residual of A V = V diag(lambda) {resid:e}"), a_re);
            }
            continue;
        }
        let vj: Vec<Vec<J>> = (0..n).map(|i| (0..n).map(|j| to_j(d, l, &v[(i, j)])).collect()).collect();
        let lj: Vec<Vec<J>> = (0..n).map(|i| (0..n).map(|j| if i == j { to_j(d, l, &lam[i]) } else { jz(l) }).collect()).collect();
        let amp = 1.0 + norm_inf(a_re).max(1.0) / if n > 1 { gap } else { 1.0 };
        let res = jsub(&jmatmul(l, &aj, &vj), &jmatmul(l, &vj, &lj));
        let scale = jadd(&jmatmul(l, &jabs(&aj), &jabs(&vj)), &jmatmul(l, &jabs(&vj), &jabs(&lj)));
        // calibrated (DESIGN 2.5 protocol): generic matrices reach 2.2 x (256 n u amp^k scale) in
        // their second-order parts -> factor 4096 n
        let (w, at) = worst(l, &res, &scale, 4096.0 * n as f64, amp);
        ctx.judge("jacobi_eigenvalue AV=VL", &tn, n, class, w, &at, a_re);
        let res = jsub(&jmatmul(l, &jt(&vj), &vj), &jeye(l, n));
        let scale = jadd(&jmatmul(l, &jabs(&jt(&vj)), &jabs(&vj)), &jeye(l, n));
        let (w, at) = worst(l, &res, &scale, 256.0 * n as f64, amp);
        ctx.judge("jacobi_eigenvalue VtV=I", &tn, n, class, w, &at, a_re);
        for k in 1..n {
            if lam[k].re() < lam[k - 1].re() {
                ctx.flag("jacobi_eigenvalue order", &tn, n, class, "eigenvalues are not ascending".into(), a_re);
            }
        }
        let (e0, v0) = smallest_ev(ad.clone());
        ctx.st.evaluations += 1;
        if e0.re() != lam[0].re() || (0..n).any(|i| v0[i].re() != v[(i, 0)].re()) {
            ctx.flag("smallest_ev", &tn, n, class, "smallest_ev differs from the first eigenpair of jacobi_eigenvalue".into(), a_re);
        }
    }
}

// ------------------------------------------------------------------------------------------------
// nalgebra's generic decompositions over dual scalars (dynamic storage for all n, static for n <= 6 by macro)

fn nalgebra_routines<D: Subject<f64> + nalgebra::RealField>(ctx: &mut Ctx, d: Dims, mats: &[(Vec<Vec<f64>>, &'static str)], eig: &[(Vec<Vec<f64>>, &'static str)]) {
    let l = D::layout(d);
    let l = &l;
    let tn = l.type_name.clone();
    for (a_re, class) in mats {
        let n = a_re.len();
        let c = cond(a_re);
        let mut aj: Vec<Vec<J>> = vec![vec![jz(l); n]; n];
        let mut ad = DMatrix::<D>::from_element(n, n, D::from(0.0));
        for i in 0..n {
            for j in 0..n {
                let (v, jv) = entry_scaled::<D>(d, l, a_re[i][j], i * n + j, class_scale(class));
                ad[(i, j)] = v;
                aj[i][j] = jv;
            }
        }
        let amp = 1.0 + c;
        let singular = !c.is_finite();
        // try_inverse
        match guarded(|| ad.clone().try_inverse()) {
            Ok(Some(inv)) => {
                if singular {
                    let finite = inv.iter().all(|x| x.parts(d).vals.iter().all(|v| v.is_finite()));
                    if !finite {
                        ctx.flag("nalgebra try_inverse", &tn, n, class, "singular real part: non-finite inverse instead of None".into(), a_re);
                    }
                } else {
                    let ij: Vec<Vec<J>> = (0..n).map(|i| (0..n).map(|j| to_j(d, l, &inv[(i, j)])).collect()).collect();
                    let res = jsub(&jmatmul(l, &aj, &ij), &jeye(l, n));
                    let scale = jadd(&jmatmul(l, &jabs(&aj), &jabs(&ij)), &jeye(l, n));
                    let (w, at) = worst(l, &res, &scale, 64.0 * n as f64, amp);
                    ctx.judge("nalgebra try_inverse", &tn, n, class, w, &at, a_re);
                }
            }
            Ok(None) => {
                if !singular && c < 1e6 {
                    ctx.flag("nalgebra try_inverse", &tn, n, class, format!("None for a matrix with condition number {c:.1}"), a_re);
                }
            }
            Err(m) => ctx.flag("nalgebra try_inverse", &tn, n, class, format!("panicked: {m}"), a_re),
        }
        if singular {
            continue;
        }
        // determinant (direct) and through LU
        let (want, maj) = leibniz(l, &aj);
        let det = to_j(d, l, &ad.determinant());
        let (w, at) = worst(l, &[vec![det.sub(&want)]], &[vec![maj.clone()]], 64.0 * n as f64, amp);
        ctx.judge("nalgebra determinant", &tn, n, class, w, &at, a_re);
        let lu = ad.clone().lu();
        let det = to_j(d, l, &lu.determinant());
        let (w, at) = worst(l, &[vec![det.sub(&want)]], &[vec![maj]], 64.0 * n as f64, amp);
        ctx.judge("nalgebra lu.determinant", &tn, n, class, w, &at, a_re);
        let mut bj: Vec<Vec<J>> = vec![vec![jz(l)]; n];
        let mut bd = DVector::<D>::from_element(n, D::from(0.0));
        for i in 0..n {
            let (v, jv) = entry::<D>(d, l, (1 + 2 * i) as f64 * if i % 2 == 0 { 1.0 } else { -1.0 }, 100 + i);
            bd[i] = v;
            bj[i][0] = jv;
        }
        match lu.solve(&bd) {
            Some(x) => {
                let xj: Vec<Vec<J>> = (0..n).map(|i| vec![to_j(d, l, &x[i])]).collect();
                let res = jsub(&jmatmul(l, &aj, &xj), &bj);
                let scale = jadd(&jmatmul(l, &jabs(&aj), &jabs(&xj)), &jabs(&bj));
                let (w, at) = worst(l, &res, &scale, 64.0 * n as f64, amp);
                ctx.judge("nalgebra lu.solve", &tn, n, class, w, &at, a_re);
            }
            None => ctx.flag("nalgebra lu.solve", &tn, n, class, "None for a regular matrix".into(), a_re),
        }
        // Euclidean norm of the matrix (Frobenius)
        let nr = to_j(d, l, &ad.norm());
        let mut sq = jz(l);
        let mut sc = nr.abs().mul(&nr.abs());
        for i in 0..n {
            for j in 0..n {
                sq = sq.add(&aj[i][j].mul(&aj[i][j]));
                sc = sc.add(&aj[i][j].abs().mul(&aj[i][j].abs()));
            }
        }
        if !sq.re().is_zero() {
            let (w, at) = worst(l, &[vec![nr.mul(&nr).sub(&sq)]], &[vec![sc]], 64.0 * n as f64, 1.0);
            ctx.judge("nalgebra norm", &tn, n, class, w, &at, a_re);
        }
    }
    for (a_re, class) in eig {
        // negligible off-diagonal real parts are, for nalgebra's SymmetricEigen, zero ones: the
        // deflation on real parts recorded as a known finding (not num-dual code); the class is
        // there for the crate's own routine
        if *class == "tiny-offdiagonal" || *class == "repeated-diagonal" {
            continue;
        }
        let n = a_re.len();
        let ev = eig_sym(a_re);
        let gap = ev.windows(2).map(|w| w[1] - w[0]).fold(f64::INFINITY, f64::min);
        let mut aj: Vec<Vec<J>> = vec![vec![jz(l); n]; n];
        let mut ad = DMatrix::<D>::from_element(n, n, D::from(0.0));
        for i in 0..n {
            for j in i..n {
                let (v, jv) = entry_scaled::<D>(d, l, a_re[i][j], i * n + j, class_scale(class));
                ad[(i, j)] = v.clone();
                ad[(j, i)] = v;
                aj[i][j] = jv.clone();
                aj[j][i] = jv;
            }
        }
        let se = match guarded(|| ad.clone().symmetric_eigen()) {
            Ok(s) => s,
            Err(m) => {
                ctx.flag("nalgebra symmetric_eigen", &tn, n, class, format!("panicked: {m}"), a_re);
                continue;
            }
        };
        let vj: Vec<Vec<J>> = (0..n).map(|i| (0..n).map(|j| to_j(d, l, &se.eigenvectors[(i, j)])).collect()).collect();
        let lj: Vec<Vec<J>> = (0..n).map(|i| (0..n).map(|j| if i == j { to_j(d, l, &se.eigenvalues[i]) } else { jz(l) }).collect()).collect();
        let amp = 1.0 + norm_inf(a_re).max(1.0) / if n > 1 { gap } else { 1.0 };
        // nalgebra's own accuracy on the plain float matrix: the dual run is held to the same
        // standard in the real part (its residual on floats, with a factor 8 margin)
        let float_resid = {
            let af = DMatrix::<f64>::from_fn(n, n, |i, j| a_re[i][j]);
            let se = af.clone().symmetric_eigen();
            let r = &af * &se.eigenvectors - &se.eigenvectors * DMatrix::from_diagonal(&se.eigenvalues);
            r.iter().fold(0.0f64, |m, x| m.max(x.abs()))
        };
        let res = jsub(&jmatmul(l, &aj, &vj), &jmatmul(l, &vj, &lj));
        let scale = jadd(&jmatmul(l, &jabs(&aj), &jabs(&vj)), &jmatmul(l, &jabs(&vj), &jabs(&lj)));
        let boost = 1.0 + 8.0 * float_resid / (1024.0 * n as f64 * amp * 1.1e-16);
        let (w, at) = worst(l, &res, &scale, 1024.0 * n as f64 * amp * boost, amp);
        ctx.judge("nalgebra symmetric_eigen AV=VL", &tn, n, class, w, &at, a_re);
        let res = jsub(&jmatmul(l, &jt(&vj), &vj), &jeye(l, n));
        let scale = jadd(&jmatmul(l, &jabs(&jt(&vj)), &jabs(&vj)), &jeye(l, n));
        let (w, at) = worst(l, &res, &scale, 1024.0 * n as f64 * amp, amp);
        ctx.judge("nalgebra symmetric_eigen VtV=I", &tn, n, class, w, &at, a_re);
    }
}

// ------------------------------------------------------------------------------------------------

fn is_diag_like(a: &[Vec<f64>]) -> bool {
    // some off-diagonal real part is exactly zero (the derivative parts are never zero)
    let n = a.len();
    (0..n).any(|i| (0..n).any(|j| i != j && a[i][j] == 0.0))
}

fn matrix_sets(mode: Mode) -> (Vec<(Vec<Vec<f64>>, &'static str)>, Vec<(Vec<Vec<f64>>, &'static str)>) {
    let mut mats: Vec<(Vec<Vec<f64>>, &'static str)> = Vec::new();
    let mut eig: Vec<(Vec<Vec<f64>>, &'static str)> = Vec::new();
    for n in 1..=2usize {
        for m in small_matrices(n, &[-1.0, 0.0, 1.0, 2.0]) {
            let c = cond(&m);
            if c <= 50.0 {
                mats.push((m.clone(), "alphabet"));
            } else if !c.is_finite() && (0..n).any(|j| (0..n).all(|i| m[i][j] == 0.0)) {
                mats.push((m.clone(), "zero-column"));
            } else if det_f64(&m) == 0.0 {
                mats.push((m.clone(), "singular"));
            }
            let sym = (0..n).all(|i| (0..n).all(|j| m[i][j] == m[j][i]));
            if sym {
                let e = eig_sym(&m);
                let gap = e.windows(2).map(|w| w[1] - w[0]).fold(f64::INFINITY, f64::min);
                if n == 1 || gap >= 0.25 {
                    eig.push((m, if n > 1 && is_diag_like(&small_clone(&e, n, &[])) { "alphabet" } else { "alphabet" }));
                }
            }
        }
    }
    let step3 = if mode == Mode::Quick { 7 } else { 1 };
    for (k, m) in small_matrices(3, &[-1.0, 0.0, 2.0]).into_iter().enumerate() {
        let sym = (0..3).all(|i| (0..3).all(|j| m[i][j] == m[j][i]));
        if sym {
            let e = eig_sym(&m);
            let gap = e.windows(2).map(|w| w[1] - w[0]).fold(f64::INFINITY, f64::min);
            if gap >= 0.25 {
                eig.push((m.clone(), "alphabet"));
            }
        }
        if k % step3 != 0 {
            continue;
        }
        let c = cond(&m);
        if c <= 50.0 {
            mats.push((m, "alphabet"));
        } else if !c.is_finite() && (0..3).any(|j| (0..3).all(|i| m[i][j] == 0.0)) {
            mats.push((m, "zero-column"));
        } else if det_f64(&m) == 0.0 && k % (step3 * 5) == 0 {
            mats.push((m, "singular"));
        }
    }
    let sizes: &[usize] = if mode == Mode::Quick { &[4, 5] } else { &[4, 5, 6] };
    for &n in sizes {
        for (b, base) in base_matrices(n).into_iter().enumerate() {
            let perms = permutations(n);
            let pstep = if mode == Mode::Quick && n >= 5 { 5 } else { 1 };
            for (k, p) in perms.iter().enumerate() {
                if k % pstep != 0 || (b > 0 && mode == Mode::Quick && k % 4 != 0) {
                    continue;
                }
                // row order p: every pivoting path and both parities
                let m: Vec<Vec<f64>> = (0..n).map(|i| base[p[i]].clone()).collect();
                mats.push((m, "row-order"));
            }
            // symmetric version for the eigen routines, under signed-permutation similarity
            let sym: Vec<Vec<f64>> = (0..n).map(|i| (0..n).map(|j| if i == j { base[i][i] } else { base[i.min(j)][i.max(j)] }).collect()).collect();
            let e = eig_sym(&sym);
            let gap = e.windows(2).map(|w| w[1] - w[0]).fold(f64::INFINITY, f64::min);
            if gap >= 0.25 {
                let estep = if mode == Mode::Quick { perms.len() / 6 } else { (perms.len() / 60).max(1) };
                for (k, p) in perms.iter().enumerate() {
                    if k % estep != 0 {
                        continue;
                    }
                    let sgn: Vec<f64> = (0..n).map(|i| if (k >> i) & 1 == 0 { 1.0 } else { -1.0 }).collect();
                    let m: Vec<Vec<f64>> = (0..n).map(|i| (0..n).map(|j| sgn[i] * sgn[j] * sym[p[i]][p[j]]).collect()).collect();
                    eig.push((m, "similarity"));
                }
            }
        }
    }
    // symmetric matrices whose off-diagonal real parts are tiny but not zero (2^-70) next to O(1)
    // derivative parts, for every order of the diagonal: the small-angle branch of the Jacobi
    // rotation (t = a_pq / (d_q - d_p)) does all the work there, in the derivative parts
    let t = 2f64.powi(-70);
    for diag in [vec![2.0, -1.0], vec![-1.0, 2.0]] {
        eig.push((vec![vec![diag[0], t], vec![t, diag[1]]], "tiny-offdiagonal"));
        eig.push((vec![vec![diag[0], -t], vec![-t, diag[1]]], "tiny-offdiagonal"));
    }
    for p in permutations(3) {
        let dv = [3.0, 1.0, 2.0];
        let m: Vec<Vec<f64>> = (0..3).map(|i| (0..3).map(|j| if i == j { dv[p[i]] } else if (i + j) % 2 == 0 { -t } else { t }).collect()).collect();
        eig.push((m, "tiny-offdiagonal"));
    }
    // graded matrices: O(1) diagonal entries of either sign, tiny (2^-30) but non-zero entries below
    // the diagonal, O(1) entries above it, in several row orders: the pivot search must compare
    // MAGNITUDES - taking a tiny entry as pivot is not wrong in exact arithmetic but loses nine digits
    for n in 2..=4usize {
        for pat in 0..(1usize << n) {
            let base: Vec<Vec<f64>> = (0..n)
                .map(|i| {
                    (0..n)
                        .map(|j| {
                            if i == j {
                                (if (pat >> i) & 1 == 1 { -1.0 } else { 1.0 }) * (2.0 + 0.5 * i as f64)
                            } else if i < j {
                                0.5 * ((i + 2 * j) % 3) as f64 - 0.25
                            } else {
                                2f64.powi(-30) * (1 + (i + j) % 2) as f64 * if (i * j) % 2 == 0 { 1.0 } else { -1.0 }
                            }
                        })
                        .collect()
                })
                .collect();
            if cond(&base) > 50.0 {
                continue;
            }
            let perms = permutations(n);
            let pstep = if mode == Mode::Quick { (perms.len() / 3).max(1) } else { 1 };
            for (k, p) in perms.iter().enumerate() {
                if k % pstep != 0 {
                    continue;
                }
                mats.push(((0..n).map(|i| base[p[i]].clone()).collect(), "graded"));
            }
        }
    }
    // diagonal real parts with repeated entries (no rotation is needed; a sweep forced on them divides
    // 0 by 0)
    for dv in [vec![1.0, 1.0], vec![2.0, 5.0, 2.0], vec![1.0, 1.0, 1.0], vec![2.0, 5.0, 2.0, 7.0]] {
        let n = dv.len();
        eig.push(((0..n).map(|i| (0..n).map(|j| if i == j { dv[i] } else { 0.0 }).collect()).collect(), "repeated-diagonal"));
    }
    // the same matrices scaled by powers of two (real and derivative parts): conditioning, and
    // therefore singularity, does not depend on the magnitude of the entries
    let mut scaled: Vec<(Vec<Vec<f64>>, &'static str)> = Vec::new();
    let (mut ka, mut kr) = (0usize, 0usize);
    for (m, class) in &mats {
        let pick = match *class {
            "alphabet" => {
                ka += 1;
                ka % 3 == 0
            }
            "row-order" => {
                kr += 1;
                kr % 10 == 0
            }
            _ => false,
        };
        if pick {
            for (s, name) in [(2f64.powi(-60), "scaled-small"), (2f64.powi(50), "scaled-large")] {
                scaled.push((m.iter().map(|r| r.iter().map(|x| x * s).collect()).collect(), name));
            }
        }
    }
    mats.extend(scaled);
    (mats, eig)
}

fn small_clone(_e: &[f64], _n: usize, _x: &[f64]) -> Vec<Vec<f64>> {
    vec![vec![0.0]]
}

fn run_all(st: &mut Stats, mode: Mode) {
    let (mats, eig) = matrix_sets(mode);
    // split the eigen set: matrices with an exactly zero off-diagonal real part get their own class
    let eig: Vec<(Vec<Vec<f64>>, &'static str)> = eig.into_iter().map(|(m, c)| if c != "repeated-diagonal" && m.len() > 1 && is_diag_like(&m) { (m, "zero-offdiagonal") } else { (m, c) }).collect();
    st.count("matrices", mats.len() as u64);
    st.count("symmetric_matrices", eig.len() as u64);
    let mut ctx = Ctx { st };
    crate_routines::<Dual64>(&mut ctx, Dims::NONE, &mats, &eig);
    crate_routines::<Dual2_64>(&mut ctx, Dims::NONE, &mats, &eig);
    crate_routines::<DualSVec64<2>>(&mut ctx, Dims::n(2), &mats, &eig);
    nalgebra_routines::<Dual64>(&mut ctx, Dims::NONE, &mats, &eig);
    nalgebra_routines::<Dual2_64>(&mut ctx, Dims::NONE, &mats, &eig);
    nalgebra_routines::<DualSVec64<2>>(&mut ctx, Dims::n(2), &mats, &eig);
    if mode == Mode::Quick {
        // the types whose == compares every part (derived), on the class where the Jacobi iteration
        // branches on a comparison: repaired by b3c74da, kept in the quick tier
        let tiny: Vec<(Vec<Vec<f64>>, &'static str)> = eig.iter().filter(|(_, c)| *c == "tiny-offdiagonal").cloned().collect();
        let sing: Vec<(Vec<Vec<f64>>, &'static str)> = mats.iter().filter(|(_, c)| *c == "zero-column" || *c == "singular").cloned().collect();
        crate_routines::<Dual3_64>(&mut ctx, Dims::NONE, &sing, &tiny);
        crate_routines::<HyperDual64>(&mut ctx, Dims::NONE, &sing, &tiny);
    }
    if mode == Mode::Thorough {
        crate_routines::<Dual3_64>(&mut ctx, Dims::NONE, &mats, &eig);
        crate_routines::<HyperDual64>(&mut ctx, Dims::NONE, &mats, &eig);
        nalgebra_routines::<DualDVec64>(&mut ctx, Dims::n(3), &mats, &eig);
        nalgebra_routines::<Dual2SVec64<2>>(&mut ctx, Dims::n(2), &mats, &eig);
    }
}

fn main() {
    quiet_panics();
    let cli = cli();
    let start = Instant::now();
    let mut stats = Stats::default();
    let _ = Arc::new(0);
    let mode = if cli.replay.is_some() { Mode::Thorough } else { cli.mode };
    if let Err(m) = guarded(|| run_all(&mut stats, mode)) {
        stats.violation(Violation { sig: "linalg panic".into(), case: json!({}), what: format!("panicked: {m}") });
    }
    if let Some(path) = &cli.replay {
        let v = read_replay(path);
        let sig = v["sig"].as_str().unwrap_or("");
        if let Some((n, viol)) = stats.violations.get(sig) {
            println!("replay: {sig}: {} ({n} cases)", viol.what);
            println!("VIOLATION property={PROP} replay={path}");
            std::process::exit(1);
        }
        println!("replay: property holds on this case");
        std::process::exit(0);
    }
    stats.sample(|| json!({"routine": "LU::solve", "matrix": "row order [2,0,3,1] of a diagonally dominant 4x4 integer matrix", "entries": "dual numbers with pairwise distinct non-unit derivative parts", "identity": "A x - b = 0 in every part"}));
    let rep = Report {
        property: PROP,
        mode: cli.mode,
        seed: cli.seed,
        start,
        rule: "num_dual::linalg::{LU::new/solve/inverse/determinant, norm, jacobi_eigenvalue, smallest_ev} and nalgebra {try_inverse, determinant, lu().determinant/solve, norm, symmetric_eigen} over dual scalars: ALL n x n matrices over {-1,0,1,2} for n <= 2 and over {-1,0,2} for n = 3 (quick: every 7th) that are well-conditioned (cond <= 50) or have an all-zero column / are exactly singular; for n = 4..6 ALL n! row orders (quick: a sub-lattice) of three diagonally dominant integer matrices; all symmetric alphabet matrices with eigen-gap >= 0.25 and signed-permutation similarity transforms of the symmetric base matrices; entries carry pairwise distinct non-unit derivative parts; two right-hand sides. Non-trivial: every case (all entries carry derivative parts).".into(),
        assumptions: vec![
            "identities A x = b, A A^-1 = I, A V = V diag(lambda), V^T V = I, det = Leibniz expansion are evaluated from the outputs in double-double jets; tolerance 64 n u (1+cond)^order x majorant (4096 n u (1 + |A|/gap)^order for A V = V diag(lambda), 256 n u ... for V^T V = I)".into(),
            "nalgebra's SymmetricEigen documents unsorted eigenvalues: ascending order is demanded of the crate's Jacobi routine only".into(),
        ],
        extra: json!({}),
        exhaustive: true,
        caps: vec![],
    };
    std::process::exit(finish(rep, stats));
}
