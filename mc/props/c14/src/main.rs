//! C14 — cylindrical Bessel functions J0, J1, J2 with derivatives on f64 dual types.

use explore::*;
use harness::*;
use num_dual::BesselDual;
use serde_json::{json, Value};
use std::time::Instant;
use subject::*;

const PROP: &str = "C14";
/// absolute-scale constants per derivative order (differentiating the rational / asymptotic
/// approximants amplifies their error; DESIGN 2.5): kappa_k * u * sum |N^k|
const ABS_KAPPA: [f64; 7] = BESSEL_ABS_KAPPA;

fn cfg() -> TolCfg<'static> {
    TolCfg { property: PROP, slack: 1.0, composite_rule: true, abs_kappa: None }
}

fn points(mode: Mode) -> Vec<f64> {
    let step = if mode == Mode::Quick { 4 } else { 1 };
    let mut v: Vec<f64> = (-3840i32..=3840).step_by(step).map(|k| k as f64 / 64.0).collect();
    // 1e-3 .. 0.999: small arguments and the upper end of the series region of bessel_j2
    let mut sp = vec![0.0, 5e-324, 1e-300, 1e-8, 1e-3, 0.03, 0.9, 0.99, 0.999, 1.001];
    for e in [1e-5f64, 5.0, 1.0] {
        sp.push(e);
        sp.push(f64::from_bits(e.to_bits() + 1));
        sp.push(f64::from_bits(e.to_bits() - 1));
    }
    for x in sp {
        v.push(x);
        v.push(-x);
    }
    v
}

fn exec<D: BesselDual>(op: Op, a: &[D]) -> D {
    apply_bessel(op, a[0])
}

struct Enumerate<'a> {
    mode: Mode,
    stats: &'a mut Stats,
    axes: Vec<Value>,
}

impl<'a> VisitorCopy for Enumerate<'a> {
    fn visit<D: Subject<f64> + Copy>(&mut self, d: Dims) {
        let l = D::layout(d);
        let mut jobs = Vec::new();
        for op in [Op::BesselJ0, Op::BesselJ1, Op::BesselJ2] {
            for x in points(self.mode) {
                jobs.push((op, x));
            }
        }
        let c = cfg();
        let mut n = sweep_points::<f64, D>(d, &l, &jobs, 2, &c, &exec::<D>, self.stats);
        // every presence pattern x the tensor grid of part values (zeros included: a vanishing first
        // part with non-vanishing higher parts) in every branch of the three functions
        {
            let mut pj: Vec<(Op, Vec<f64>)> = Vec::new();
            for op in [Op::BesselJ0, Op::BesselJ1, Op::BesselJ2] {
                for x in [2e-6, 0.5, 1.25, -3.5, 7.25, -59.0] {
                    pj.push((op, vec![x]));
                }
            }
            n += sweep_many::<f64, D>(d, &l, &pj, 400, &c, &exec::<D>, self.stats).cases;
        }
        // parity
        let l2 = &l;
        par_for(jobs.len(), self.stats, |i, st| {
            let (op, x) = jobs[i];
            for p in few_assignments::<f64>(l2, x, 1, 0) {
                // mirrored operand -X: every part negated; J0 and J2 are even, J1 is odd, and the
                // implementation reaches both results through the same arithmetic on |x|, so
                // f(-X) = +-f(X) must hold bit for bit in every part
                let mut q = p.clone();
                for k in 0..l2.nslots() {
                    q.vals[k] = -q.vals[k];
                }
                let a = guarded(|| apply_bessel(op, D::build(d, &p)).parts(d));
                let b = guarded(|| apply_bessel(op, D::build(d, &q)).parts(d));
                st.evaluations += 2;
                st.transitions += 2;
                if let (Ok(a), Ok(b)) = (a, b) {
                    let sign = if op == Op::BesselJ1 { -1.0 } else { 1.0 };
                    for k in 0..l2.nslots() {
                        let (u, w) = (a.alpha(l2, k), sign * b.alpha(l2, k));
                        let same = u == w || (u.is_nan() && w.is_nan());
                        if !same {
                            st.violation(Violation {
                                sig: format!("{} {} parity order{}", op.name(), l2.type_name, l2.slot_degree(k)),
                                case: case_to_json(l2, d, &Case { op, args: vec![p.clone()] }),
                                what: format!("slot {}: f(x) part {:e} but mirrored f(-x) part {:e}", l2.slots[k].name, u, w),
                            });
                            break;
                        }
                    }
                }
            }
        });
        self.axes.push(json!({"type": l.type_name, "points": jobs.len() / 3, "cases": n}));
    }
}

struct Replay<'a> {
    case: &'a Value,
    name: String,
    dims: Dims,
    ok: Option<bool>,
}
impl<'a> VisitorCopy for Replay<'a> {
    fn visit<D: Subject<f64> + Copy>(&mut self, d: Dims) {
        if self.ok.is_some() || d != self.dims || D::type_name(d) != self.name {
            return;
        }
        let l = D::layout(d);
        let op = op_from_json(&self.case["op"]);
        let args: Vec<Parts<f64>> = self.case["args"].as_array().unwrap().iter().map(parts_from_json::<f64>).collect();
        let mut st = Stats::default();
        let r = run_tol::<f64, D>(d, &l, &Case { op, args }, &cfg(), &exec::<D>, &mut st);
        for (sig, (_, v)) in &st.violations {
            println!("replay: {sig}: {}", v.what);
        }
        self.ok = Some(r);
    }
}

/// History independence: every ordered pair of calls (function x argument regime) is executed on a
/// FRESH thread (so that thread-local and lazily initialised state starts empty); the bits of the
/// second call must not depend on which call came first.
fn history_independence(st: &mut Stats) -> usize {
    use num_dual::Dual2_64;
    let calls: Vec<(Op, f64)> = [Op::BesselJ0, Op::BesselJ1, Op::BesselJ2].iter().flat_map(|op| [2e-6, 0.5, 3.0, 7.0].iter().map(move |x| (*op, *x))).collect();
    let eval = |(op, x): (Op, f64)| -> Vec<u64> {
        let r = apply_bessel(op, Dual2_64::new(x, 0.75, -1.25));
        vec![r.re.to_bits(), r.v1.to_bits(), r.v2.to_bits()]
    };
    let mut pairs = 0;
    for &c2 in &calls {
        let mut first: Option<(Vec<u64>, (Op, f64))> = None;
        for &c1 in &calls {
            let r = std::thread::spawn(move || {
                let _ = eval(c1);
                eval(c2)
            })
            .join();
            let r = match r {
                Ok(r) => r,
                Err(_) => continue,
            };
            pairs += 1;
            st.evaluations += 2;
            st.transitions += 2;
            match &first {
                None => first = Some((r, c1)),
                Some((r0, c0)) => {
                    if *r0 != r {
                        st.violation(Violation {
                            sig: format!("history {} Dual2<f64>", c2.0.name()),
                            case: json!({"call": {"op": c2.0.name(), "x": c2.1}, "after_a": {"op": c0.0.name(), "x": c0.1}, "after_b": {"op": c1.0.name(), "x": c1.1}}),
                            what: format!("{}({}) gives different bits on a fresh thread after {}({}) than after {}({}): the result depends on the previous call", c2.0.name(), c2.1, c0.0.name(), c0.1, c1.0.name(), c1.1),
                        });
                        break;
                    }
                }
            }
        }
    }
    pairs
}

fn main() {
    quiet_panics();
    let cli = cli();
    if let Some(path) = &cli.replay {
        let v = read_replay(path);
        let case = &v["case"];
        let mut r = Replay { case, name: case["type"].as_str().unwrap().to_string(), dims: replay_dims(case), ok: None };
        copy64_types(Tier::Thorough, &mut r);
        match r.ok {
            Some(true) => {
                println!("replay: property holds on this case");
                std::process::exit(0)
            }
            Some(false) => {
                println!("VIOLATION property={PROP} replay={path}");
                std::process::exit(1)
            }
            None => machinery("replay: type not in the universe"),
        }
    }
    let start = Instant::now();
    let mut stats = Stats::default();
    let mut e = Enumerate { mode: cli.mode, stats: &mut stats, axes: vec![] };
    let tier = if cli.mode == Mode::Quick { Tier::Quick } else { Tier::Thorough };
    copy64_types(tier, &mut e);
    let axes = std::mem::take(&mut e.axes);
    let hist_pairs = history_independence(&mut stats);
    let rep = Report {
        property: PROP,
        mode: cli.mode,
        seed: cli.seed,
        start,
        rule: "bessel_j0/j1/j2 x f64 Copy dual types (scalar, static vector, thorough: nested up to 4th order) x the lattice k/64 (quick k/16) in [-60,60] plus 0, denormal, 1e-300, 1e-8, 1e-5, 1, 5 with float neighbours, 1e-3, 0.03, 0.9, 0.99, 0.999, 1.001, both signs x {2 generic assignments of pairwise distinct non-unit parts, unit seeding}; plus bitwise parity f(-x) vs f(x) for every point; plus history independence: every ordered pair of calls from {J0, J1, J2} x {2e-6, 0.5, 3, 7} on a fresh thread, the second call's bits must not depend on the first".into(),
        assumptions: vec![
            "tolerance: real part 16 u absolute; derivative parts 128 u M + kappa_k u sum|N^k| with kappa_k = 32, 256, 8192, 65536 for orders 1..4 (differentiated approximants)".into(),
            "reference: Miller backward recurrence / Maclaurin series in double-double, Bessel ODE series jets, audited against mpmath".into(),
        ],
        extra: json!({"axes": axes, "abs_kappa": ABS_KAPPA, "history_pairs": hist_pairs}),
        exhaustive: true,
        caps: vec![],
    };
    std::process::exit(finish(rep, stats));
}
