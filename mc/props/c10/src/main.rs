//! C10 — smooth special points yield finite, correct derivatives.

use explore::*;
use harness::*;
use num_dual::BesselDual;
use serde_json::{json, Value};
use std::time::Instant;
use subject::*;

const PROP: &str = "C10";

fn cfg() -> TolCfg<'static> {
    TolCfg { property: PROP, slack: 1.0, composite_rule: true, abs_kappa: None }
}

fn nb<F: Flt>(x: f64) -> Vec<f64> {
    // x and both neighbours in F
    let b = F::from64(x).bits();
    vec![F::from64(x).to64(), F::from_bits64(b + 1).to64(), F::from_bits64(b - 1).to64()]
}

fn with_signs(v: Vec<f64>) -> Vec<f64> {
    let mut o = Vec::new();
    for x in v {
        o.push(x);
        o.push(-x);
    }
    o
}

struct Enumerate<'a> {
    mode: Mode,
    stats: &'a mut Stats,
    axes: Vec<Value>,
}

impl<'a> Visitor for Enumerate<'a> {
    fn visit<F: Flt, D: Subject<F>>(&mut self, d: Dims) {
        let l = D::layout(d);
        let c = cfg();
        let mut list: Vec<(Op, Vec<f64>)> = Vec::new();
        // non-negative integer powers at and next to zero
        let tiny = with_signs(vec![0.0, F::TINY, 1e-300f64.max(F::TINY * 1e20)]);
        for n in 0..=8 {
            for &x in &tiny {
                list.push((Op::Powi(n), vec![x]));
            }
        }
        // real powers at zero: integer exponents, or non-integer exponents above the order of the type
        let ord = l.order as f64;
        let mut ps = vec![3.0, 4.0, 5.0, 6.0, 7.0];
        for p in [1.5, 2.5, 3.5, 4.5, 6.5] {
            ps.push(p);
        }
        for c0 in [2.0f64, 3.0, 4.0, 5.0] {
            let b = F::from64(c0).bits();
            ps.push(F::from_bits64(b + 1).to64());
            ps.push(F::from_bits64(b - 1).to64());
        }
        // huge exponents: every coefficient n (n-1) ... x^(n-k) is 0 at zero, however large n is
        // (a product of the exponent factors formed first overflows: 0 * inf)
        ps.extend(if F::PREC == 53 { [1e103, 1e155, 1e300] } else { [1e13, 1e20, 1e38] });
        for p in ps {
            let is_int = p.fract() == 0.0;
            if is_int || p > ord {
                list.push((Op::Powf(p), vec![0.0]));
            }
        }
        // spherical Bessel functions at zero and around the series switch
        let mut xs = with_signs(vec![0.0, F::TINY, 1e-300f64.max(F::TINY * 1e20), 1e-5, 1e-3]);
        xs.extend(with_signs(nb::<F>(2.0 * F::U)));
        xs.extend(with_signs(nb::<F>(F::U)));
        // the switch from the series to the closed form at |x| = 1 and arguments just below it
        xs.extend(with_signs(nb::<F>(1.0)));
        xs.extend(with_signs(vec![0.9, 0.999]));
        for op in [Op::SphJ0, Op::SphJ1, Op::SphJ2] {
            for &x in &xs {
                list.push((op, vec![x]));
            }
        }
        // exp(x)-1 and ln(1+x) at and next to zero
        for op in [Op::ExpM1, Op::Ln1p] {
            for x in with_signs(vec![0.0, F::TINY, 1e-300f64.max(F::TINY * 1e20), F::U / 8.0, 1e-5]) {
                list.push((op, vec![x]));
            }
        }
        // atan2 on both axes away from the origin
        let t = F::TINY;
        for (y, x) in [(1.0, 0.0), (-1.0, 0.0), (0.0, 1.0), (0.0, -1.0), (2.5, 0.0), (0.0, -0.375)] {
            list.push((Op::Atan2, vec![y, x]));
        }
        for s1 in [1.0, -1.0] {
            for s2 in [1.0, -1.0] {
                list.push((Op::Atan2, vec![s1, s2 * t]));
                list.push((Op::Atan2, vec![s1 * t, s2]));
                list.push((Op::Atan2, vec![s1 * 1.25, s2 * 1e-300f64.max(t * 1e20)]));
                list.push((Op::Atan2, vec![s1 * 1e-300f64.max(t * 1e20), s2 * 0.75]));
            }
        }
        let budget = if self.mode == Mode::Quick { 400 } else { 40_000 };
        let info = sweep_many::<F, D>(d, &l, &list, budget, &c, &exec_generic::<F, D>, self.stats);
        self.axes.push(json!({"type": l.type_name, "points": list.len(), "cases": info.cases, "full_tensor_grid": info.full_grid}));
    }
}

fn exec_b<D: BesselDual>(op: Op, a: &[D]) -> D {
    apply_bessel(op, a[0])
}

impl<'a> VisitorCopy for Enumerate<'a> {
    fn visit<D: Subject<f64> + Copy>(&mut self, d: Dims) {
        let l = D::layout(d);
        let c = cfg();
        let mut list: Vec<(Op, Vec<f64>)> = Vec::new();
        let mut xs = with_signs(vec![0.0, 5e-324, 1e-300, 1e-8]);
        xs.extend(with_signs(nb::<f64>(1e-5)));
        xs.extend(with_signs(nb::<f64>(5.0)));
        xs.extend(with_signs(nb::<f64>(1.0)));
        xs.extend(with_signs(vec![1e-3, 0.9, 0.999]));
        for op in [Op::BesselJ0, Op::BesselJ1, Op::BesselJ2] {
            for &x in &xs {
                list.push((op, vec![x]));
            }
        }
        let budget = if self.mode == Mode::Quick { 400 } else { 40_000 };
        let info = sweep_many::<f64, D>(d, &l, &list, budget, &c, &exec_b::<D>, self.stats);
        self.axes.push(json!({"type": l.type_name, "bessel_points": list.len(), "cases": info.cases, "full_tensor_grid": info.full_grid}));
    }
}

fn universe(tier: Tier, v: &mut impl Visitor) {
    scalar_types(v);
    // the plain-float instances of the generic interface have their own spherical Bessel code
    v.visit::<f64, f64>(Dims::NONE);
    v.visit::<f32, f32>(Dims::NONE);
    static_vector_types(Tier::Quick, v);
    dynamic_vector_types(&[0, 1, 2], v);
    nested_types(tier, v);
    if tier == Tier::Quick {
        fourth_order_types(v);
    }
}

/// atan2 on the axes with a coordinate so small that its square underflows while its reciprocal is
/// finite (1e-25 in single, 1e-170 in double precision), on the first-order scalar type: the reference
/// algebra cannot form r^2 there, the exact values can be written down: d/dx atan2(y, 0) = -1/y,
/// d/dy = 0; d/dy atan2(0, x) = 1/x, d/dx = 0
macro_rules! tiny_axis {
    ($st:expr, $f:ty, $d:ty, $t:expr, $name:literal) => {{
        use num_dual::DualNum;
        for s in [1.0 as $f, -1.0] {
            let t: $f = s * $t;
            let (a, b): ($f, $f) = (0.75, -1.25);
            let cases: [(&str, $d, $f, $f); 2] = [
                ("atan2(tiny, 0)", <$d>::new(t, a).atan2(<$d>::new(0.0, b)), t.atan2(0.0), -b / t),
                ("atan2(0, tiny)", <$d>::new(0.0, a).atan2(<$d>::new(t, b)), (0.0 as $f).atan2(t), a / t),
            ];
            for (what, got, re, eps) in cases {
                $st.evaluations += 1;
                $st.state(hash64(&($name, what, t.to_bits())));
                let ok = got.re == re && (got.eps - eps).abs() <= 8.0 * <$f>::EPSILON * eps.abs();
                if !ok {
                    $st.violation(Violation {
                        sig: format!("atan2 {} tiny axis", $name),
                        case: json!({"type": $name, "point": what, "tiny": t as f64}),
                        what: format!("{what} with tiny = {t:e}: value {:e}, derivative part {:e}; expected {:e} and {:e}", got.re as f64, got.eps as f64, re as f64, eps as f64),
                    });
                }
            }
        }
    }};
}

fn main() {
    quiet_panics();
    // history: the single-precision instances run first.  State shared between the float widths
    // (a lazily initialised table inside a generic function is shared by all instantiations) would
    // then be initialised by the f32 code before any f64 evaluation is checked
    {
        use num_dual::DualNum;
        let w = [0.5f32.sph_j0(), 0.5f32.sph_j1(), 0.5f32.sph_j2(), num_dual::Dual32::new(0.25, 1.0).sph_j1().re];
        assert!(w.iter().all(|v| v.is_finite()), "MACHINERY: warm-up");
    }
    let cli = cli();
    if let Some(path) = &cli.replay {
        let v = read_replay(path);
        if v["case"]["op"]["name"].as_str().unwrap_or("").starts_with("Bessel") {
            machinery("replay of Bessel cases: use ./check C14 --replay");
        }
        run_replay_tol(PROP, path, cfg(), &|f| universe(Tier::Thorough, f));
    }
    let start = Instant::now();
    let mut stats = Stats::default();
    let mut e = Enumerate { mode: cli.mode, stats: &mut stats, axes: vec![] };
    let tier = if cli.mode == Mode::Quick { Tier::Quick } else { Tier::Thorough };
    universe(tier, &mut e);
    copy64_types(tier, &mut e);
    let axes = std::mem::take(&mut e.axes);
    tiny_axis!(stats, f32, num_dual::Dual32, 1e-25f32, "Dual<f32>");
    tiny_axis!(stats, f64, num_dual::Dual64, 1e-170f64, "Dual<f64>");
    let rep = Report {
        property: PROP,
        mode: cli.mode,
        seed: cli.seed,
        start,
        rule: "the enumerated special points of every function, on every dual type and on the plain f32 / f64 instances (switch points |x| = 1 of the spherical Bessel functions and of bessel_j2 with their float neighbours included; powi n=0..8 at 0, -0, +-denormal, +-1e-300; powf at 0 for integer exponents and non-integer exponents above the order of the type, incl. float neighbours of 2..5; sph_j0/1/2 at 0, denormals, +-eps, +-eps/2 and neighbours, 1e-5, 1e-3; bessel_j0/1/2 at 0, denormal, 1e-300, 1e-8, +-1e-5 and +-5 with neighbours; atan2 on both axes incl. denormal and 1e-300 off-axis components; exp_m1, ln_1p at 0 and tiny arguments) x every type x every presence pattern x the full tensor grid of derivative parts (budgeted)".into(),
        assumptions: vec!["every part must be finite and within the tolerance of DESIGN 2.5 of the Maclaurin / limit value".into()],
        extra: json!({"axes": axes}),
        exhaustive: true,
        caps: vec![],
    };
    std::process::exit(finish(rep, stats));
}
