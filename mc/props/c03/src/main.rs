//! C03 — arbitrary programs of generic operations are differentiated correctly.
//! BFS over all straight-line programs up to a length bound, lock-step with the reference algebra.

use explore::*;
use harness::*;
use serde_json::{json, Value};
use std::time::Instant;
use subject::*;

const PROP: &str = "C03";

fn full_alphabet() -> Alphabet {
    use Op::*;
    Alphabet {
        unary: vec![
            Recip, Sqrt, Cbrt, Exp, Exp2, ExpM1, Ln, Log(2.5), Log2, Log10, Ln1p, Sin, Cos, SinCosS, SinCosC, Tan, Asin, Acos, Atan, Sinh,
            Cosh, Tanh, Asinh, Acosh, Atanh, SphJ0, SphJ1, SphJ2, Abs, Signum, Neg, Inv, Powi(-2), Powi(3), Powi(5), Powf(0.5), Powf(2.5),
            Powf(-1.5), AddF(0.75), SubF(0.75), MulF(-1.5), DivF(2.0), AddAF(0.75), SubAF(0.75), MulAF(-1.5), DivAF(2.0),
        ],
        binary: vec![Add, Sub, Mul, Div, AddA, SubA, MulA, DivA, AddRef, SubRef, MulRef, DivRef, Atan2, Powd, AbsSub],
        ternary: vec![MulAdd],
        nary: vec![Sum(2), Product(2), Sum(3), Product(3)],
    }
}

/// one representative per family
fn reduced_alphabet() -> Alphabet {
    use Op::*;
    Alphabet {
        unary: vec![Recip, Sqrt, Exp, Ln, Sin, Cos, Tan, Atan, Tanh, Asinh, Powi(3), Powf(2.5), Neg, MulF(-1.5), AddAF(0.75), SphJ1],
        binary: vec![Add, Sub, Mul, Div, MulA, Atan2, Powd],
        ternary: vec![MulAdd],
        nary: vec![Product(3)],
    }
}

struct Enumerate<'a> {
    mode: Mode,
    stats: &'a mut Stats,
    axes: Vec<Value>,
    capped: bool,
}

fn input_points<F: Flt>(l: &Layout, mode: Mode) -> Vec<Vec<Parts<F>>> {
    let pts: &[(f64, f64)] = if mode == Mode::Quick { &[(0.75, -1.25), (2.5, 0.3125), (0.0, 0.75), (20.0, -50.0)] } else { &[(0.75, -1.25), (2.5, 0.3125), (-0.625, 1.25), (0.0, 0.75), (20.0, -50.0)] };
    pts.iter()
        .map(|(a, b)| {
            let x0 = few_assignments::<F>(l, *a, 1, 0).remove(0);
            let x1 = few_assignments::<F>(l, *b, 1, l.nslots()).remove(0);
            // a lifted constant: all parts absent / zero
            let c = Parts::<F> { vals: (0..l.nslots()).map(|i| F::from64(if i == 0 { 1.5 } else { 0.0 })).collect(), present: vec![false; l.ngroups()] };
            let mut v = vec![x0, x1, c];
            if l.ngroups() >= 2 {
                // a value whose first optional part is absent while the later ones are present
                // (e.g. a Dual2Vec without gradient but with Hessian part)
                let mut p = few_assignments::<F>(l, 0.5 * (*a + *b), 1, 2 * l.nslots()).remove(0);
                p.present[0] = false;
                v.push(p);
            }
            v
        })
        .collect()
}

impl<'a> Visitor for Enumerate<'a> {
    fn visit<F: Flt, D: Subject<F>>(&mut self, d: Dims) {
        let l = D::layout(d);
        let full = full_alphabet();
        let red = reduced_alphabet();
        let cfgs: Vec<BfsCfg> = if self.mode == Mode::Quick {
            vec![BfsCfg { max_len: 2, margin: 0.05, alphabet: &full, last_alphabet: &full, state_cap: 100_000 }]
        } else {
            vec![
                BfsCfg { max_len: 2, margin: 0.05, alphabet: &full, last_alphabet: &full, state_cap: 1_000_000 },
                BfsCfg { max_len: 3, margin: 0.05, alphabet: &red, last_alphabet: &red, state_cap: 1_000_000 },
            ]
        };
        degenerate_iterators::<F, D>(d, &l, self.stats);
        scenarios::<F, D>(d, &l, self.stats);
        for inputs in input_points::<F>(&l, self.mode) {
            for cfg in &cfgs {
                // length 3 at three of the five points (the thorough tier stays within ~20 min)
                let re = (inputs[0].vals[0].to64(), inputs[1].vals[0].to64());
                if cfg.max_len >= 3 && (re.0 == 20.0 || re.0 == -0.625) {
                    continue;
                }
                let info = bfs_programs::<F, D>(d, &l, &inputs, cfg, self.stats);
                self.capped |= info.capped;
                self.axes.push(json!({
                    "type": l.type_name, "point": [inputs[0].vals[0].to64(), inputs[1].vals[0].to64()], "max_len": cfg.max_len,
                    "alphabet": cfg.alphabet.size(), "last_alphabet": cfg.last_alphabet.size(),
                    "states_per_level": info.states_per_level, "program_values_checked": info.programs_checked,
                    "pruned_by_reference_domain": info.pruned, "capped": info.capped,
                }));
            }
        }
    }
}

/// a few programs with large parameters that the alphabet of the breadth-first exploration does not
/// contain (its constants are small): compound interest (1 + x/n)^n through powf and powi with
/// n beyond / at the edge of the i32 range, a saturated gate x tanh(40 x), a long product
fn scenario_programs() -> Vec<(&'static str, Program, Vec<f64>)> {
    use Op::*;
    let st = |op: Op, args: Vec<usize>| Step { op, args };
    vec![
        ("scenario (1+x/n)^n powf n=3e9", Program { n_inputs: 1, steps: vec![st(DivF(3e9), vec![0]), st(AddF(1.0), vec![1]), st(Powf(3e9), vec![2])] }, vec![1.5]),
        ("scenario (1+x/n)^n powf n=-2^32", Program { n_inputs: 1, steps: vec![st(DivF(-4294967296.0), vec![0]), st(AddF(1.0), vec![1]), st(Powf(-4294967296.0), vec![2])] }, vec![-0.75]),
        ("scenario (1+x/n)^n powi n=2^30", Program { n_inputs: 1, steps: vec![st(DivF(1073741824.0), vec![0]), st(AddF(1.0), vec![1]), st(Powi(1 << 30), vec![2])] }, vec![1.5]),
        ("scenario x tanh(40x)", Program { n_inputs: 1, steps: vec![st(MulF(40.0), vec![0]), st(Tanh, vec![1]), st(Mul, vec![0, 2])] }, vec![10.0]),
        ("scenario acos(1 - x 2^-26)", Program { n_inputs: 1, steps: vec![st(MulF(-1.4901161193847656e-8), vec![0]), st(AddF(1.0), vec![1]), st(Acos, vec![2])] }, vec![1.5]),
        ("scenario asin(x 2^-26 - 1)", Program { n_inputs: 1, steps: vec![st(MulF(1.4901161193847656e-8), vec![0]), st(AddF(-1.0), vec![1]), st(Asin, vec![2])] }, vec![1.5]),
        ("scenario sqrt(x x y) / y", Program { n_inputs: 2, steps: vec![st(Product(3), vec![0, 0, 1]), st(Sqrt, vec![2]), st(DivA, vec![3, 1])] }, vec![1.25, 2.5]),
    ]
}

fn scenarios<F: Flt, D: Subject<F>>(d: Dims, l: &Layout, st: &mut Stats) {
    if F::PREC != 53 {
        return; // 1 + x/n is 1 in single precision
    }
    for (name, prog, res) in scenario_programs() {
        let inputs: Vec<Parts<F>> = res.iter().enumerate().map(|(k, r)| few_assignments::<F>(l, *r, 1, k * l.nslots()).remove(0)).collect();
        st.evaluations += 1;
        st.transitions += prog.steps.len() as u64;
        let vals: Vec<Val> = inputs.iter().map(|p| Val::exact(p.to_jet::<refmodel::DD>(l))).collect();
        let want = match prog.run_ref(&vals, F::U, 0.0) {
            Some(w) => w,
            None => machinery(&format!("C03 scenario {name}: the reference leaves its domain")),
        };
        let args: Vec<D> = inputs.iter().map(|p| D::build(d, p)).collect();
        let key = hash64(&(name, l.type_name.clone()));
        st.state(key);
        st.nontrivial(key);
        let case = || json!({"type": l.type_name, "dims": [d.m, d.n], "float": F::NAME, "inputs": inputs.iter().map(parts_to_json).collect::<Vec<_>>(), "steps": prog.steps.iter().map(|s| json!({"op": op_to_json(s.op), "args": s.args})).collect::<Vec<_>>()});
        let got = match guarded(|| prog.run_impl::<F, D>(&args).parts(d)) {
            Ok(g) => g,
            Err(m) => {
                st.violation(Violation { sig: format!("{name} {} panic", l.type_name), case: case(), what: format!("panicked: {m}") });
                continue;
            }
        };
        st.outcome(hash64(&got.bits()));
        let cmp = compare_tol(l, &got, &want, None, 2.0);
        if !cmp.ok {
            st.violation(Violation {
                sig: format!("{name} {} order{}", l.type_name, l.slot_degree(cmp.worst_slot)),
                case: case(),
                what: format!("{}: slot {} got {:e} want {:e} tol {:e}", prog.describe(), l.slots[cmp.worst_slot].name, cmp.got, cmp.want, cmp.tol),
            });
        }
    }
}

/// iterator sums and products over zero and one items (the generic interface only has the by-value
/// forms): the empty sum is the constant 0, the empty product the constant 1, a single item is
/// returned unchanged, and using them in a further operation changes nothing
fn degenerate_iterators<F: Flt, D: Subject<F>>(d: Dims, l: &Layout, st: &mut Stats) {
    let xs = few_assignments::<F>(l, 0.75, 2, 0);
    let alpha = |p: &Parts<F>| -> Vec<F> { (0..l.nslots()).map(|i| p.alpha(l, i)).collect() };
    let num_eq = |a: &Vec<F>, b: &Vec<F>| a.iter().zip(b.iter()).all(|(x, y)| x == y);
    for (k, xp) in xs.iter().enumerate() {
        let x = D::build(d, xp);
        let r = guarded(|| {
            let e0: Vec<D> = vec![];
            let s0: D = e0.iter().cloned().sum();
            let p0: D = e0.iter().cloned().product();
            let s1: D = std::iter::once(x.clone()).sum();
            let p1: D = std::iter::once(x.clone()).product();
            let via_p0 = x.clone() * p0.clone();
            let via_s0 = x.clone() + s0.clone();
            [s0.parts(d), p0.parts(d), s1.parts(d), p1.parts(d), via_p0.parts(d), via_s0.parts(d)]
        });
        st.evaluations += 6;
        st.transitions += 6;
        st.state(hash64(&("degenerate-iter", l.type_name.as_str(), k)));
        let case = || json!({"type": l.type_name, "dims": [d.m, d.n], "x": parts_to_json(xp)});
        let r = match r {
            Ok(r) => r,
            Err(m) => {
                st.violation(Violation { sig: format!("iter n<=1 {} panic", l.type_name), case: case(), what: format!("panicked: {m}") });
                continue;
            }
        };
        let constant = |c: f64| -> Vec<F> { (0..l.nslots()).map(|i| F::from64(if i == 0 { c } else { 0.0 })).collect() };
        let want: [(&str, Vec<F>); 6] = [
            ("empty sum", constant(0.0)),
            ("empty product", constant(1.0)),
            ("sum of one item", alpha(xp)),
            ("product of one item", alpha(xp)),
            ("x * (empty product)", alpha(xp)),
            ("x + (empty sum)", alpha(xp)),
        ];
        for (i, (name, w)) in want.iter().enumerate() {
            let got = alpha(&r[i]);
            st.outcome(hash64(&(name, got.iter().map(|v| v.bits()).collect::<Vec<_>>())));
            if !num_eq(&got, w) {
                st.violation(Violation {
                    sig: format!("iter {name} {}", l.type_name),
                    case: case(),
                    what: format!("{name}: parts {:?}, expected {:?}", got.iter().map(|v| v.to64()).collect::<Vec<_>>(), w.iter().map(|v| v.to64()).collect::<Vec<_>>()),
                });
            }
        }
    }
}

fn universe(tier: Tier, v: &mut impl Visitor) {
    use nalgebra::{Const, Dyn};
    use num_dual::*;
    v.visit::<f64, Dual64>(Dims::NONE);
    v.visit::<f64, Dual2_64>(Dims::NONE);
    v.visit::<f64, Dual3_64>(Dims::NONE);
    v.visit::<f64, HyperDual64>(Dims::NONE);
    v.visit::<f64, HyperHyperDual64>(Dims::NONE);
    v.visit::<f64, DualVec<f64, f64, Const<2>>>(Dims::n(2));
    v.visit::<f64, Dual2Vec<f64, f64, Const<2>>>(Dims::n(2));
    v.visit::<f64, Dual<Dual64, f64>>(Dims::NONE);
    v.visit::<f64, Dual2<Dual2_64, f64>>(Dims::NONE);
    // the hyper-dual vector type (two gradient blocks whose cross terms only differ when the
    // operands' gradients are not proportional) and a third-order type over a dual inner type
    v.visit::<f64, HyperDualVec<f64, f64, Const<2>, Const<2>>>(Dims::mn(2, 2));
    v.visit::<f64, Dual3<Dual64, f64>>(Dims::NONE);
    if tier == Tier::Thorough {
        v.visit::<f32, Dual3_32>(Dims::NONE);
        v.visit::<f32, HyperDual32>(Dims::NONE);
        v.visit::<f32, Dual2Vec<f32, f32, Const<2>>>(Dims::n(2));
        v.visit::<f64, DualVec<f64, f64, Dyn>>(Dims::n(3));
        v.visit::<f64, Dual2Vec<f64, f64, Dyn>>(Dims::n(2));
        v.visit::<f64, HyperDualVec<f64, f64, Dyn, Dyn>>(Dims::mn(1, 2));
        v.visit::<f64, Dual2<Dual64, f64>>(Dims::NONE);
        v.visit::<f64, Dual<Dual2_64, f64>>(Dims::NONE);
        v.visit::<f64, HyperDual<Dual64, f64>>(Dims::NONE);
        v.visit::<f64, DualVec<Dual64, f64, Const<2>>>(Dims::n(2));
    }
}

struct Replay<'a> {
    case: &'a Value,
    ok: bool,
}
impl<'a> TypedAction for Replay<'a> {
    fn act<F: Flt, D: Subject<F>>(&mut self, d: Dims, l: &Layout) {
        let inputs: Vec<Parts<F>> = self.case["inputs"].as_array().unwrap().iter().map(parts_from_json::<F>).collect();
        let steps: Vec<Step> = self.case["steps"]
            .as_array()
            .unwrap()
            .iter()
            .map(|s| Step { op: op_from_json(&s["op"]), args: s["args"].as_array().unwrap().iter().map(|a| a.as_u64().unwrap() as usize).collect() })
            .collect();
        let prog = Program { n_inputs: inputs.len(), steps };
        let args: Vec<D> = inputs.iter().map(|p| D::build(d, p)).collect();
        let vals: Vec<Val> = inputs.iter().map(|p| Val::exact(p.to_jet::<refmodel::DD>(l))).collect();
        let want = prog.run_ref(&vals, F::U, 0.0);
        let got = guarded(|| prog.run_impl::<F, D>(&args).parts(d));
        let got2 = guarded(|| prog.run_impl::<F, D>(&args).parts(d));
        match (want, got, got2) {
            (Some(w), Ok(g), Ok(g2)) => {
                if g.bits() != g2.bits() {
                    machinery("replay is not deterministic");
                }
                let cmp = compare_tol(l, &g, &w, None, 2.0);
                println!("replay: {}: slot {} got {:e} want {:e} tol {:e}", prog.describe(), l.slots[cmp.worst_slot].name, cmp.got, cmp.want, cmp.tol);
                self.ok = cmp.ok;
            }
            (None, _, _) => {
                println!("replay: program leaves the domain in the reference");
                self.ok = true;
            }
            _ => {
                println!("replay: implementation panicked");
                self.ok = false;
            }
        }
    }
}

fn main() {
    quiet_panics();
    let cli = cli();
    if let Some(path) = &cli.replay {
        let v = read_replay(path);
        let case = &v["case"];
        let mut act = Replay { case, ok: false };
        let name = case["type"].as_str().unwrap().to_string();
        let mut f = FindType { name: &name, dims: replay_dims(case), action: &mut act, found: false };
        universe(Tier::Thorough, &mut f);
        if !f.found {
            machinery("replay: type not in the universe");
        }
        if act.ok {
            println!("replay: property holds on this case");
            std::process::exit(0);
        }
        println!("VIOLATION property={PROP} replay={path}");
        std::process::exit(1);
    }
    let start = Instant::now();
    let mut stats = Stats::default();
    let mut e = Enumerate { mode: cli.mode, stats: &mut stats, axes: vec![], capped: false };
    let tier = if cli.mode == Mode::Quick { Tier::Quick } else { Tier::Thorough };
    universe(tier, &mut e);
    let axes = std::mem::take(&mut e.axes);
    let capped = e.capped;
    let rep = Report {
        property: PROP,
        mode: cli.mode,
        seed: cli.seed,
        start,
        rule: "breadth-first exploration of ALL straight-line programs over the operation alphabet (66 operations: functions, powers, scalar and compound-assignment forms, borrowed forms, atan2, powd, mul_add, iterator sum/product) on registers {x0, x1, lifted constant, earlier results}, any register may be re-used (DAGs, r op= r); quick: length <= 2 over the full alphabet (the last step must read the newest register; otherwise its value is that of a shorter program), thorough: length 2 full alphabet and length 3 over the one-representative-per-family alphabet; states = register files, de-duplicated by the multiset of register bit patterns; programs whose reference real parts leave the margin-shrunk domain are pruned by the reference; input points include one with a zero and one with large real parts (20, -50); plus iterator sums and products over zero and one items and seven scenario programs with large parameters or arguments next to the end of a domain ((1 + x/n)^n with n up to 3e9, x tanh(40x), acos(1 - x 2^-26)) on every type. Non-trivial = length >= 2 or a non-zero derivative part.".into(),
        assumptions: vec![
            "oracle: the same program in the reference algebra over double-double; acceptance |impl - ref| <= 2 E_out with the propagated first-order bound of DESIGN 2.5".into(),
            "inputs carry generic independent parts of every order; real parts are grid points".into(),
        ],
        extra: json!({"axes": axes}),
        exhaustive: !capped,
        caps: if capped { vec!["state cap hit".into()] } else { vec![] },
    };
    std::process::exit(finish(rep, stats));
}
