//! C15 — spherical Bessel functions j0, j1, j2 for every real argument, plain floats and dual types.

use explore::*;
use harness::*;
use serde_json::{json, Value};
use std::time::Instant;
use subject::*;

const PROP: &str = "C15";
/// absolute-scale allowance per derivative order ("rounding level of a well-conditioned evaluation")
const ABS_KAPPA: [f64; 5] = [16.0, 16.0, 16.0, 16.0, 16.0];

fn cfg() -> TolCfg<'static> {
    TolCfg { property: PROP, slack: 1.0, composite_rule: true, abs_kappa: Some(&ABS_KAPPA) }
}

fn points(mode: Mode) -> Vec<f64> {
    let step = if mode == Mode::Quick { 4 } else { 1 };
    let mut v: Vec<f64> = (-3200i32..=3200).step_by(step).map(|k| k as f64 / 64.0).collect();
    let eps64 = f64::EPSILON;
    let eps32 = f32::EPSILON as f64;
    let mut sp = vec![0.0, 5e-324, 1e-300, 1e-8, 1e-5, 1e-3, 0.03125, 1.0];
    for e in [eps64, eps64 / 2.0, eps32, eps32 / 2.0] {
        sp.push(e);
        sp.push(f64::from_bits(e.to_bits() + 1));
        sp.push(f64::from_bits(e.to_bits() - 1));
    }
    // both sides of the switch from the series to the closed form at |x| = 1 (both widths), and
    // arguments just below it, where the truncation of the series is largest
    sp.push(f64::from_bits(1f64.to_bits() + 1));
    sp.push(f64::from_bits(1f64.to_bits() - 1));
    sp.push(f32::from_bits(1f32.to_bits() + 1) as f64);
    sp.push(f32::from_bits(1f32.to_bits() - 1) as f64);
    sp.extend([0.9, 0.99, 0.999, 1.001]);
    // f32 neighbours of eps32
    sp.push(f32::from_bits(f32::EPSILON.to_bits() + 1) as f64);
    sp.push(f32::from_bits(f32::EPSILON.to_bits() - 1) as f64);
    for x in sp {
        v.push(x);
        v.push(-x);
    }
    v
}

struct Enumerate<'a> {
    mode: Mode,
    stats: &'a mut Stats,
    axes: Vec<Value>,
}

impl<'a> Visitor for Enumerate<'a> {
    fn visit<F: Flt, D: Subject<F>>(&mut self, d: Dims) {
        let l = D::layout(d);
        let mut jobs = Vec::new();
        for op in [Op::SphJ0, Op::SphJ1, Op::SphJ2] {
            for x in points(self.mode) {
                // the value must be representable in F to be the "same argument"
                let xf = F::from64(x).to64();
                if xf == 0.0 && x != 0.0 {
                    continue;
                }
                jobs.push((op, xf));
            }
        }
        let c = cfg();
        let k = if l.nslots() == 1 { 0 } else { 2 };
        let mut n = sweep_points::<F, D>(d, &l, &jobs, k, &c, &exec_generic::<F, D>, self.stats);
        if l.ngroups() > 0 {
            // vector types: every presence pattern of the optional parts x the tensor grid of part
            // values, on both sides of the switch |x| = 1 (the closed forms divide by x, x^2, x^3:
            // quotient rules with absent / present parts)
            let mut pj: Vec<(Op, Vec<f64>)> = Vec::new();
            for op in [Op::SphJ0, Op::SphJ1, Op::SphJ2] {
                for x in [1e-3, 0.5, 1.0, 1.75, -2.5] {
                    pj.push((op, vec![x]));
                }
            }
            n += sweep_many::<F, D>(d, &l, &pj, 600, &c, &exec_generic::<F, D>, self.stats).cases;
        }
        self.axes.push(json!({"type": l.type_name, "points": jobs.len() / 3, "cases": n}));
    }
}

fn universe(tier: Tier, v: &mut impl Visitor) {
    v.visit::<f64, f64>(Dims::NONE);
    v.visit::<f32, f32>(Dims::NONE);
    scalar_types(v);
    v.visit::<f64, num_dual::DualSVec64<2>>(Dims::n(2));
    v.visit::<f64, num_dual::Dual2SVec64<2>>(Dims::n(2));
    v.visit::<f64, num_dual::HyperDualSVec64<2, 2>>(Dims::mn(2, 2));
    v.visit::<f32, num_dual::DualSVec32<2>>(Dims::n(2));
    v.visit::<f64, num_dual::Dual2<num_dual::Dual64, f64>>(Dims::NONE);
    v.visit::<f32, num_dual::Dual2<num_dual::Dual32, f32>>(Dims::NONE);
    fourth_order_types(v);
    if tier == Tier::Thorough {
        v.visit::<f64, num_dual::DualDVec64>(Dims::n(3));
        v.visit::<f64, num_dual::Dual2DVec64>(Dims::n(2));
        v.visit::<f64, num_dual::HyperDualDVec64>(Dims::mn(1, 2));
        v.visit::<f32, num_dual::Dual2SVec32<2>>(Dims::n(2));
        v.visit::<f32, num_dual::HyperDualSVec32<2, 2>>(Dims::mn(2, 2));
        v.visit::<f64, num_dual::Dual<num_dual::Dual2_64, f64>>(Dims::NONE);
    }
}

fn main() {
    quiet_panics();
    // history: the single-precision instances run first.  State shared between the float widths
    // (a lazily initialised table inside a generic function is shared by all instantiations) would
    // then be initialised by the f32 code before any f64 evaluation is checked
    {
        use num_dual::DualNum;
        let w = [0.5f32.sph_j0(), 0.5f32.sph_j1(), 0.5f32.sph_j2(), num_dual::Dual32::new(0.25, 1.0).sph_j1().re];
        assert!(w.iter().all(|v| v.is_finite()), "MACHINERY: warm-up");
    }
    let cli = cli();
    if let Some(path) = &cli.replay {
        run_replay_tol(PROP, path, cfg(), &|f| universe(Tier::Thorough, f));
    }
    let start = Instant::now();
    let mut stats = Stats::default();
    let mut e = Enumerate { mode: cli.mode, stats: &mut stats, axes: vec![] };
    let tier = if cli.mode == Mode::Quick { Tier::Quick } else { Tier::Thorough };
    universe(tier, &mut e);
    let axes = std::mem::take(&mut e.axes);
    let rep = Report {
        property: PROP,
        mode: cli.mode,
        seed: cli.seed,
        start,
        rule: "sph_j0/1/2 x {plain f32, f64, scalar dual types over both widths, vector and nested types} x the lattice k/64 (quick: k/16) in [-50,50] plus 0, denormals, 1e-300, +-eps/2, +-eps and their float neighbours for both widths, 1e-8, 1e-5, 1e-3, the switch |x| = 1 with its float neighbours in both widths, 0.9, 0.99, 0.999, 1.001, with both signs x {2 generic part assignments with pairwise distinct non-unit parts, the unit seeding}; non-trivial = an operand part is neither 0 nor 1 and the result has a non-zero derivative part".into(),
        assumptions: vec![
            "tolerance per part: 128 u (M + E^def) + 16 u sum|N^k|: Faa di Bruno majorant, propagated bound of the closed form the property quotes (x != 0), and the absolute rounding level of a well-conditioned evaluation (all derivatives of j_n are bounded by 1)".into(),
            "reference: Maclaurin series for |x| < 1, closed forms in double-double beyond, series jets from the closed forms; audited against mpmath".into(),
        ],
        extra: json!({"axes": axes, "abs_kappa": ABS_KAPPA}),
        exhaustive: true,
        caps: vec![],
    };
    std::process::exit(finish(rep, stats));
}
