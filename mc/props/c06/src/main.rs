//! C06 — the real part is transparent and alone decides comparisons and branches.

use explore::*;
use harness::*;
use num_dual::*;
use num_traits::Signed;
use refmodel::DD;
use serde_json::{json, Value};
use std::time::Instant;
use subject::*;

const PROP: &str = "C06";

fn alphabet() -> Vec<Op> {
    use Op::*;
    vec![
        Recip, Sqrt, Cbrt, Exp, Exp2, ExpM1, Ln, Log(2.5), Log(2.0), Log(10.0), Log2, Log10, Ln1p, Sin, Cos, SinCosS, SinCosC, Tan, Asin, Acos, Atan, Sinh, Cosh,
        Tanh, Asinh, Acosh, Atanh, SphJ0, SphJ1, SphJ2, Abs, Signum, Neg, Inv, Powi(-2), Powi(0), Powi(1), Powi(2), Powi(3), Powi(5), Powi(-10), Powi(-100), Powi(64), Powf(-30.5), Powf(0.0),
        Powf(1.0), Powf(2.0), Powf(0.5), Powf(2.5), Powf(-1.5), AddF(0.75), SubF(0.75), MulF(-1.5), DivF(2.0), AddAF(0.75), SubAF(0.75), MulAF(-1.5),
        DivAF(2.0), MulF(0.0), MulF(-0.0), MulAF(0.0), MulAF(-0.0), AddF(-0.0), SubF(0.0), AddAF(-0.0), DivF(0.0), DivF(-0.0), DivAF(0.0), DivAF(-0.0), DivF(f64::INFINITY), DivF(1e-310), MulF(f64::INFINITY), Powf(3.0), Powf(-3.0), Add, Sub, Mul, Div, AddA, SubA, MulA, DivA, AddRef, SubRef, MulRef, DivRef, Atan2, Powd, AbsSub, MulAdd, Sum(2), Product(2),
    ]
}

/// ops whose real part is a single std float call (or IEEE operation) on the real parts
fn single_call(op: Op) -> bool {
    use Op::*;
    matches!(
        op.canonical(),
        Recip | Sqrt | Cbrt | Exp | Exp2 | ExpM1 | Ln | Log(_) | Log2 | Log10 | Ln1p | Sin | Cos | SinCosS | SinCosC | Asin | Acos | Atan | Sinh | Cosh | Asinh | Acosh
            | Atanh | Abs | Signum | Neg | Powi(_) | Powf(_) | AddF(_) | SubF(_) | MulF(_) | DivF(_) | Add | Sub | Mul | Atan2 | AbsSub | Sum(_) | Product(_)
    ) && !matches!(op, Powf(p) if p == 2.0) && !matches!(op, Powi(2))
}

fn real_points(op: Op) -> Vec<Vec<f64>> {
    let g: Vec<f64> = match op {
        // integer-valued float exponents: negative bases are legitimate (the float powf is exact there)
        Op::Powf(p) if p == 3.0 || p == -3.0 => REAL.to_vec(),
        Op::Sqrt | Op::Ln | Op::Log(_) | Op::Log2 | Op::Log10 | Op::Powf(_) | Op::Powd => POS.to_vec(),
        Op::Ln1p => GTM1.to_vec(),
        Op::Asin | Op::Acos | Op::Atanh => UNIT.to_vec(),
        Op::Acosh => GT1.to_vec(),
        _ => REAL.to_vec(),
    };
    match op.arity() {
        1 => g.iter().map(|x| vec![*x]).collect(),
        2 => {
            let second = [-2.5, 0.3125, 2.0];
            g.iter().flat_map(|x| second.iter().map(move |y| vec![*x, *y])).collect()
        }
        _ => g.iter().take(5).map(|x| vec![*x, -1.25, 0.75]).collect(),
    }
}

/// operand-part assignments that share the real part: zero/absent, two generic, special values
fn assignments<F: Flt>(l: &Layout, re: f64, salt: usize) -> Vec<Parts<F>> {
    let mut out = Vec::new();
    // constant (all absent)
    out.push(Parts { vals: (0..l.nslots()).map(|i| F::from64(if i == 0 { re } else { 0.0 })).collect(), present: vec![false; l.ngroups()] });
    out.extend(few_assignments::<F>(l, re, 2, salt));
    for special in [f64::INFINITY, f64::NEG_INFINITY, f64::NAN, 1e300, -1e-300] {
        let sp = F::from64(special);
        out.push(Parts { vals: (0..l.nslots()).map(|i| if i == 0 { F::from64(re) } else { sp }).collect(), present: vec![true; l.ngroups()] });
    }
    // one special value in a single slot, the rest generic
    for k in 1..l.nslots().min(4) {
        let mut p = few_assignments::<F>(l, re, 1, salt).remove(0);
        p.vals[k] = F::from64(f64::NAN);
        out.push(p);
    }
    out
}

struct Enumerate<'a> {
    stats: &'a mut Stats,
    axes: Vec<Value>,
}

impl<'a> Visitor for Enumerate<'a> {
    fn visit<F: Flt, D: Subject<F>>(&mut self, d: Dims) {
        let l = D::layout(d);
        let l = &l;
        let mut jobs: Vec<(Op, Vec<f64>)> = Vec::new();
        for op in alphabet() {
            for re in real_points(op) {
                if op.in_domain(&re) {
                    jobs.push((op, re));
                }
            }
        }
        // extreme real parts (zero, huge, tiny): the real part must still be the float result
        // (same NaN / infinity class, otherwise a few ulp)
        let extremes: Vec<f64> = if F::PREC == 53 { vec![0.0, -0.0, 1e-60, 1e60, -1e-60, -1e60, 1e-30, -1e30, 1e100, 1e-100] } else { vec![0.0, -0.0, 1e-12, -1e-12, 1e12, -1e12] };
        // arguments of large and small magnitude well inside the range (premature overflow, amplified
        // argument errors, cancellation next to zero)
        let mut extremes = extremes;
        extremes.extend([70.0, -70.0, 100.0, -100.0, 50.0, -50.0, 20.0, -1000.0, 1048576.0, -1048576.0, 1.2345678e-6, -3.3e-7]);
        // close to the end points of (-1, 1) and to 1 from above (asin, acos, atanh, acosh, ln_1p)
        extremes.extend([0.9999, -0.9999, 0.99999999, 1.0001]);
        if F::PREC == 53 {
            extremes.extend([690.0, -690.0, 1000.0, 400.0, -400.0]);
        }
        for op in alphabet() {
            if op.arity() == 1 {
                for &x in &extremes {
                    if op.in_domain(&[x]) || x == 0.0 {
                        jobs.push((op, vec![x]));
                    }
                }
            } else if op.arity() == 2 {
                let (xs2, ys2): (Vec<f64>, Vec<f64>) = if F::PREC == 53 { (vec![0.0, 1e60, -1e-60, 1e-100], vec![1e-60, -1e60, 0.5, 1e100]) } else { (vec![0.0, 1e12, -1e-12], vec![1e-12, -1e12, 0.5]) };
                for &x in &xs2 {
                    for &y in &ys2 {
                        if !op.in_domain(&[x, y]) {
                            continue;
                        }
                        jobs.push((op, vec![x, y]));
                    }
                }
            }
        }
        // integer-valued float exponents at negative bases (outside the domain filter of the reference
        // model, which is not consulted for single-call operations): the float powf is exact there
        for p in [3.0, -3.0] {
            for x in [-2.5, -0.625, -1000.0] {
                jobs.push((Op::Powf(p), vec![x]));
            }
        }
        let jobs_ref = &jobs;
        par_for(jobs.len(), self.stats, |n, st| {
            let (op, re) = &jobs_ref[n];
            let re_f: Vec<f64> = re.iter().map(|x| F::from64(*x).to64()).collect();
            let lists: Vec<Vec<Parts<F>>> = re_f.iter().enumerate().map(|(k, r)| assignments::<F>(l, *r, k * l.nslots())).collect();
            // (b) plain float result
            let fargs: Vec<F> = re_f.iter().map(|x| F::from64(*x)).collect();
            let plain = apply_impl::<F, F>(*op, &fargs);
            let mut first: Option<u64> = None;
            let na = lists[0].len();
            for a in 0..na {
                // operand k takes assignment (a + k) mod na: pairs of operands that share real
                // parts but differ arbitrarily in derivative parts
                let parts: Vec<Parts<F>> = lists.iter().enumerate().map(|(k, ls)| ls[(a + k) % na].clone()).collect();
                let args: Vec<D> = parts.iter().map(|p| D::build(d, p)).collect();
                st.evaluations += 1;
                st.transitions += 1;
                st.state(hash64(&(l.type_name.as_str(), format!("{op:?}"), parts.iter().map(|p| (p.bits(), p.present.clone())).collect::<Vec<_>>())));
                let case = || json!({"type": l.type_name, "float": F::NAME, "dims": [d.m, d.n], "op": op_to_json(*op), "args": parts.iter().map(parts_to_json).collect::<Vec<_>>()});
                let r = match guarded(|| apply_impl::<F, D>(*op, &args).re()) {
                    Ok(r) => r,
                    Err(m) => {
                        st.violation(Violation { sig: format!("{} {} panic", op.name(), l.type_name), case: case(), what: format!("panicked: {m}") });
                        return;
                    }
                };
                st.outcome(hash64(&(n, r.bits())));
                if a > 0 {
                    st.nontrivial(hash64(&(n, a, l.type_name.as_str())));
                }
                match first {
                    None => first = Some(r.bits()),
                    Some(b) => {
                        if b != r.bits() && !(F::from_bits64(b).is_nan() && r.is_nan()) {
                            st.violation(Violation {
                                sig: format!("{} {} re-depends-on-parts", op.name(), l.type_name),
                                case: case(),
                                what: format!("real part {:e} with constant operands but {:e} with other derivative parts", F::from_bits64(b).to64(), r.to64()),
                            });
                            return;
                        }
                    }
                }
                // (b) against the plain float operation
                if a == 0 {
                    let same = r.bits() == plain.bits() || (r.is_nan() && plain.is_nan());
                    if single_call(*op) {
                        // the property grants "a few units in the last place"; single-call
                        // operations are bit-equal on the current tree, the check allows 4 ulp
                        let few_ulp = (r.to64() - plain.to64()).abs() <= 8.0 * F::U * plain.to64().abs();
                        // a zero must carry the sign the float operation gives it (1/x, atan2 and
                        // the sign predicates of later steps depend on it)
                        if !same && r.to64() == 0.0 && plain.to64() == 0.0 {
                            st.violation(Violation {
                                sig: format!("{} {} re-vs-float sign-of-zero", op.name(), l.type_name),
                                case: case(),
                                what: format!("real part {:e} but the float operation gives {:e} (sign of zero)", r.to64(), plain.to64()),
                            });
                            return;
                        }
                        if !same && (!few_ulp || !plain.is_finite() || !r.is_finite()) {
                            st.violation(Violation {
                                sig: format!("{} {} re-vs-float bits", op.name(), l.type_name),
                                case: case(),
                                what: format!("real part {:e} but the float operation gives {:e} (more than 4 ulp apart)", r.to64(), plain.to64()),
                            });
                            return;
                        }
                    } else if !same && (!plain.is_finite() || !r.is_finite()) {
                        // different class (NaN / infinity / finite)
                        st.violation(Violation {
                            sig: format!("{} {} re-vs-float class", op.name(), l.type_name),
                            case: case(),
                            what: format!("real part {:e} but the float operation gives {:e}", r.to64(), plain.to64()),
                        });
                        return;
                    } else if !same {
                        // reformulated operations: few ulp / bound of the defining expression
                        let vals: Vec<Val> = parts.iter().map(|p| Val::exact(p.to_jet::<DD>(l))).collect();
                        let w = apply_ref(*op, &vals, F::U);
                        let mut tol = w.e.c[0].to_f64();
                        if let Some(x) = defining_bound(*op, &vals, F::U) {
                            if x.c[0].is_finite() {
                                tol += x.c[0].to_f64();
                            }
                        }
                        // extreme real parts are outside the validated range of the double-double
                        // reference: plain relative tolerance there
                        let extreme = re_f.iter().any(|x| *x == 0.0 || x.abs() < 1e-20 || x.abs() > 1e20);
                        if extreme || !tol.is_finite() {
                            tol = 32.0 * F::U * plain.to64().abs() + 4096.0 * F::TINY;
                        }
                        let diff = (r.to64() - plain.to64()).abs();
                        st.ratio(&op.name(), diff / (F::U * plain.to64().abs().max(1e-300)), || format!("{} x={:?}", l.type_name, re_f));
                        if !(diff <= 2.0 * tol) {
                            st.violation(Violation {
                                sig: format!("{} {} re-vs-float tol", op.name(), l.type_name),
                                case: case(),
                                what: format!("real part {:e}, float operation {:e}, allowed difference {:e}", r.to64(), plain.to64(), 2.0 * tol),
                            });
                            return;
                        }
                    }
                }
            }
        });
        // predicates decided by the real part, on every type
        let vals = [f64::NEG_INFINITY, -2.0, -0.0, 0.0, 1.0, 2.0, f64::INFINITY, f64::NAN, 1.0 + 2.0 * F::U, 1.0 - F::U, -1.0, F::TINY, -F::TINY, 0.5];
        for &x in &vals {
            for p in assignments::<F>(l, x, 0) {
                let v = D::build(d, &p);
                let xf = F::from64(x);
                let checks: [(&str, bool, bool); 4] = [
                    ("is_zero", v.is_zero(), xf.is_zero()),
                    ("is_one", v.is_one(), xf.is_one()),
                    ("is_positive", v.is_positive(), Signed::is_positive(&xf)),
                    ("is_negative", v.is_negative(), Signed::is_negative(&xf)),
                ];
                self.stats.evaluations += 4;
                for (name, got, want) in checks {
                    if got != want {
                        self.stats.violation(Violation {
                            sig: format!("{name} {}", l.type_name),
                            case: json!({"type": l.type_name, "value": parts_to_json(&p)}),
                            what: format!("{name} is {got} but the real part {x:e} gives {want}"),
                        });
                    }
                }
                // abs and signum select on the sign of the real part
                if !x.is_nan() {
                    let a = Signed::abs(&v).parts(d);
                    let expect = if Signed::is_positive(&xf) { v.clone() } else { -v.clone() }.parts(d);
                    let s = Signed::signum(&v).re();
                    let es = Signed::signum(&xf).to64();
                    self.stats.evaluations += 2;
                    if a.bits() != expect.bits() || s.to64() != es {
                        self.stats.violation(Violation {
                            sig: format!("abs/signum {}", l.type_name),
                            case: json!({"type": l.type_name, "value": parts_to_json(&p)}),
                            what: format!("abs/signum not decided by the real part {x:e}"),
                        });
                    }
                }
            }
        }
        self.axes.push(json!({"type": l.type_name, "op_points": jobs.len()}));
    }
}

// ------------------------------------------------------------------------------------------------
// comparisons on the four field-compatible types

macro_rules! cmp_checks {
    ($st:expr, $name:expr, $mk:expr, $f:ty) => {{
        // the two- and three-operand methods of nalgebra's field interface: the real part must not
        // change by a single bit with the derivative parts, or their presence, of any operand (a fast
        // path keyed on absent parts may round differently: fused x * a + b against the two-step form)
        {
            use nalgebra::{ComplexField, RealField};
            let triples: [($f, $f, $f); 4] = [(0.1, 10.0, -1.0), (0.3, 3.0, -0.9), (1.1, 1.1, -1.21), (1.7, 2.5, 0.7)];
            for (x, a, b) in triples {
                let mut seen: std::collections::BTreeMap<&str, (u64, usize, usize, usize)> = std::collections::BTreeMap::new();
                for kx in [1usize, 5, 6] {
                    for ka in 0..7usize {
                        for kb in 0..7usize {
                            let (dx, da, db) = ($mk(x, kx), $mk(a, ka), $mk(b, kb));
                            let results: [(&str, $f); 6] = [
                                ("mul_add", ComplexField::mul_add(dx.clone(), da.clone(), db.clone()).re),
                                ("hypot", ComplexField::hypot(dx.clone(), da.clone()).re),
                                ("powf", ComplexField::powf(dx.clone(), da.clone()).re),
                                ("atan2", RealField::atan2(dx.clone(), da.clone()).re),
                                ("scale", ComplexField::scale(dx.clone(), da.clone()).re),
                                ("log", ComplexField::log(dx.clone(), da.clone()).re),
                            ];
                            $st.evaluations += 6;
                            for (m, r) in results {
                                let bits = (r as f64).to_bits();
                                match seen.get(m) {
                                    None => {
                                        seen.insert(m, (bits, kx, ka, kb));
                                    }
                                    Some(&(b0, x0, a0, c0)) => {
                                        if b0 != bits && !(r.is_nan() && f64::from_bits(b0).is_nan()) {
                                            $st.violation(Violation {
                                                sig: format!("field method {m} {} re-depends-on-parts", $name),
                                                case: json!({"type": $name, "method": m, "reals": [x as f64, a as f64, b as f64], "variants": [kx, ka, kb], "first_variants": [x0, a0, c0]}),
                                                what: format!("{m} at real parts ({x:e}, {a:e}, {b:e}): real part {:e} with operand variants ({kx},{ka},{kb}) but {:e} with ({x0},{a0},{c0})", r as f64, f64::from_bits(b0)),
                                            });
                                        }
                                    }
                                }
                            }
                        }
                    }
                }
            }
        }
        // 1000 / 1000.5 / 1000.0001: pairs that lie between an absolute and a relative tolerance
        let reals: [$f; 12] = [<$f>::NEG_INFINITY, -2.0, -0.0, 0.0, 1.0, 1.0, 2.0, <$f>::INFINITY, <$f>::NAN, 1000.0, 1000.5, 1000.0001];
        for (i, &a) in reals.iter().enumerate() {
            for (j, &b) in reals.iter().enumerate() {
                for va in 0..3usize {
                    for vb in 0..3usize {
                        let x = $mk(a, i * 3 + va);
                        let y = $mk(b, j * 5 + vb + 1);
                        $st.evaluations += 10;
                        $st.transitions += 10;
                        $st.state(hash64(&($name, i, j, va, vb)));
                        $st.nontrivial(hash64(&($name, i, j, va, vb)));
                        // a number compared with itself (the same object): NaN is not equal to itself
                        #[allow(clippy::eq_op)]
                        if vb == 0 && j == 0 {
                            let (se, sn, sp) = (x == x, x != x, x.partial_cmp(&x));
                            $st.evaluations += 3;
                            if se != (a == a) || sn != (a != a) || sp != a.partial_cmp(&a) {
                                $st.violation(Violation {
                                    sig: format!("compare with itself {}", $name),
                                    case: json!({"type": $name, "a": a as f64, "variant_a": va}),
                                    what: format!("x == x is {se}, x != x is {sn}, partial_cmp(x, x) is {sp:?} for a number with real part {a:e}"),
                                });
                            }
                        }
                        let results: [(&str, bool, bool); 13] = [
                            ("==", x == y, a == b),
                            ("!=", x != y, a != b),
                            ("<", x < y, a < b),
                            ("<=", x <= y, a <= b),
                            (">", x > y, a > b),
                            (">=", x >= y, a >= b),
                            ("abs_diff_eq", approx::AbsDiffEq::abs_diff_eq(&x, &y, $mk(0.5, 7)), approx::AbsDiffEq::abs_diff_eq(&a, &b, 0.5)),
                            ("relative_eq", approx::RelativeEq::relative_eq(&x, &y, $mk(1e-6, 3), $mk(0.25, 4)), approx::RelativeEq::relative_eq(&a, &b, 1e-6, 0.25)),
                            ("ulps_eq", approx::UlpsEq::ulps_eq(&x, &y, $mk(1e-6, 2), 4), approx::UlpsEq::ulps_eq(&a, &b, 1e-6, 4)),
                            // the two tolerances of relative_eq far apart, in both orders
                            ("relative_eq(eps small)", approx::RelativeEq::relative_eq(&x, &y, $mk(1e-3, 5), $mk(1e-2, 6)), approx::RelativeEq::relative_eq(&a, &b, 1e-3, 1e-2)),
                            ("relative_eq(rel small)", approx::RelativeEq::relative_eq(&x, &y, $mk(0.75, 5), $mk(1e-6, 6)), approx::RelativeEq::relative_eq(&a, &b, 0.75, 1e-6)),
                            ("abs_diff_eq(small)", approx::AbsDiffEq::abs_diff_eq(&x, &y, $mk(1e-3, 8)), approx::AbsDiffEq::abs_diff_eq(&a, &b, 1e-3)),
                            ("ulps_eq(many)", approx::UlpsEq::ulps_eq(&x, &y, $mk(0.0, 2), 1 << 20), approx::UlpsEq::ulps_eq(&a, &b, 0.0, 1 << 20)),
                        ];
                        for (op, got, want) in results {
                            $st.outcome(hash64(&(op, got)));
                            if got != want {
                                $st.violation(Violation {
                                    sig: format!("compare {op} {}", $name),
                                    case: json!({"type": $name, "a": a as f64, "b": b as f64, "variant_a": va, "variant_b": vb}),
                                    what: format!("{a:e} {op} {b:e} is {want} for floats but {got} for {}", $name),
                                });
                            }
                        }
                        // abs_sub (the positive difference) branches on the comparison of the real parts
                        {
                            let got = num_traits::Signed::abs_sub(&x, &y).re;
                            let want = num_traits::Signed::abs_sub(&a, &b);
                            if got.to_bits() != want.to_bits() && !(got.is_nan() && want.is_nan()) {
                                $st.violation(Violation {
                                    sig: format!("compare abs_sub {}", $name),
                                    case: json!({"type": $name, "a": a as f64, "b": b as f64}),
                                    what: format!("abs_sub({a:e},{b:e}) has real part {got:e}, the float gives {want:e}"),
                                });
                            }
                        }
                        // the sign methods of nalgebra's field interface: real part as on floats (signed
                        // zeros included), and the parts are the operand's own, negated with the real part
                        if vb == 0 {
                            use nalgebra::{ComplexField, RealField};
                            let neg = -x.clone();
                            let sel = |flip: bool| if flip { format!("{:?}", neg) } else { format!("{:?}", x) };
                            let items: [(&str, String, $f, $f, Option<bool>); 6] = [
                                ("ComplexField::abs", format!("{:?}", ComplexField::abs(x.clone())), ComplexField::abs(x.clone()).re, ComplexField::abs(a), Some(a.is_sign_negative())),
                                ("modulus", format!("{:?}", ComplexField::modulus(x.clone())), ComplexField::modulus(x.clone()).re, ComplexField::modulus(a), Some(a.is_sign_negative())),
                                ("norm1", format!("{:?}", ComplexField::norm1(x.clone())), ComplexField::norm1(x.clone()).re, ComplexField::norm1(a), Some(a.is_sign_negative())),
                                ("simd_abs", format!("{:?}", simba::simd::SimdComplexField::simd_abs(x.clone())), simba::simd::SimdComplexField::simd_abs(x.clone()).re, ComplexField::abs(a), Some(a.is_sign_negative())),
                                ("copysign", format!("{:?}", RealField::copysign(x.clone(), y.clone())), RealField::copysign(x.clone(), y.clone()).re, RealField::copysign(a, b), Some(a.is_sign_negative() != b.is_sign_negative())),
                                ("neg", format!("{:?}", neg), neg.re, -a, None),
                            ];
                            for (m, got_dbg, got, want, flip) in items {
                                $st.evaluations += 1;
                                let re_ok = got.to_bits() == want.to_bits() || (got.is_nan() && want.is_nan());
                                let parts_ok = match flip {
                                    Some(f) if !a.is_nan() => got_dbg == sel(f),
                                    _ => true,
                                };
                                if !re_ok || !parts_ok {
                                    $st.violation(Violation {
                                        sig: format!("sign method {m} {}", $name),
                                        case: json!({"type": $name, "a": a as f64, "b": b as f64, "variant_a": va}),
                                        what: format!("{m}({a:e}{}) gives {got_dbg}; the float method gives {want:e} and the operand is {:?}", if m == "copysign" { format!(", {b:e}") } else { String::new() }, x),
                                    });
                                }
                            }
                        }
                        if x.partial_cmp(&y) != a.partial_cmp(&b) {
                            $st.violation(Violation {
                                sig: format!("compare partial_cmp {}", $name),
                                case: json!({"type": $name, "a": a as f64, "b": b as f64}),
                                what: format!("partial_cmp({a:e},{b:e}) differs from the float result"),
                            });
                        }
                        // min / max for every pair (unordered ones included) and clamp for every triple
                        // (crossed and NaN bounds included): the real part is what the float method gives
                        {
                            let fsame = |g: $f, w: $f| g.to_bits() == w.to_bits() || (g.is_nan() && w.is_nan()) || (g == 0.0 && w == 0.0);
                            let mn = guarded(|| nalgebra::RealField::min(x.clone(), y.clone()).re);
                            let mx = guarded(|| nalgebra::RealField::max(x.clone(), y.clone()).re);
                            let (wmn, wmx) = (nalgebra::RealField::min(a, b), nalgebra::RealField::max(a, b));
                            $st.evaluations += 2;
                            if !matches!(mn, Ok(g) if fsame(g, wmn)) || !matches!(mx, Ok(g) if fsame(g, wmx)) {
                                $st.violation(Violation {
                                    sig: format!("select min/max {} real part", $name),
                                    case: json!({"type": $name, "a": a as f64, "b": b as f64}),
                                    what: format!("min/max of ({a:e}, {b:e}): real parts {mn:?} / {mx:?}, the float methods give {wmn:e} / {wmx:e}"),
                                });
                            }
                            if va == 0 && vb == 0 {
                                for (k, &c) in reals.iter().enumerate() {
                                    let z = $mk(c, k + 11);
                                    let cl = guarded(|| nalgebra::RealField::clamp(z.clone(), x.clone(), y.clone()).re);
                                    let want = guarded(|| nalgebra::RealField::clamp(c, a, b));
                                    $st.evaluations += 1;
                                    let ok = match (&cl, &want) {
                                        (Ok(g), Ok(w)) => fsame(*g, *w),
                                        (Err(_), Err(_)) => true,
                                        _ => false,
                                    };
                                    if !ok {
                                        $st.violation(Violation {
                                            sig: format!("select clamp {} real part", $name),
                                            case: json!({"type": $name, "x": c as f64, "min": a as f64, "max": b as f64}),
                                            what: format!("clamp({c:e}; {a:e}, {b:e}): {cl:?}, the float method gives {want:?}"),
                                        });
                                    }
                                }
                            }
                        }
                        // RealField selection: min / max / clamp return the selected operand with its own parts
                        if !a.is_nan() && !b.is_nan() {
                            let mn = nalgebra::RealField::min(x.clone(), y.clone());
                            let mx = nalgebra::RealField::max(x.clone(), y.clone());
                            let emn = if a < b { x.clone() } else { y.clone() };
                            let emx = if a > b { x.clone() } else { y.clone() };
                            let same = |p: &_, q: &_| format!("{:?}", p) == format!("{:?}", q);
                            $st.evaluations += 2;
                            // on ties either operand is acceptable as long as it is one of the two
                            let ok_mn = same(&mn, &emn) || (a == b && (same(&mn, &x) || same(&mn, &y)));
                            let ok_mx = same(&mx, &emx) || (a == b && (same(&mx, &x) || same(&mx, &y)));
                            if !ok_mn || !ok_mx {
                                $st.violation(Violation {
                                    sig: format!("select min/max {}", $name),
                                    case: json!({"type": $name, "a": a as f64, "b": b as f64, "variant_a": va, "variant_b": vb}),
                                    what: format!("min/max of ({a:e}, {b:e}) is not the operand selected by the real parts, with its own derivative parts"),
                                });
                            }
                            if a <= b {
                                for (k, &c) in reals.iter().enumerate() {
                                    if c.is_nan() {
                                        continue;
                                    }
                                    let z = $mk(c, k + 11);
                                    let cl = nalgebra::RealField::clamp(z.clone(), x.clone(), y.clone());
                                    let want = if c < a { x.clone() } else if c > b { y.clone() } else { z.clone() };
                                    $st.evaluations += 1;
                                    let ok = same(&cl, &want) || ((c == a) && same(&cl, &x)) || ((c == b) && same(&cl, &y));
                                    if !ok {
                                        $st.violation(Violation {
                                            sig: format!("select clamp {}", $name),
                                            case: json!({"type": $name, "x": c as f64, "lo": a as f64, "hi": b as f64}),
                                            what: format!("clamp({c:e}; {a:e}, {b:e}) is not the operand selected by the real parts"),
                                        });
                                    }
                                }
                            }
                        }
                    }
                }
            }
        }
    }};
}

fn comparisons(st: &mut Stats) {
    use nalgebra::{Const, Dyn, SVector, DVector, RowSVector, RowDVector, SMatrix, DMatrix};
    let pv = |k: usize, j: usize| part_value(k, 1 + j % 3);
    cmp_checks!(st, "Dual64", |re: f64, k: usize| Dual64::new(re, pv(k, k)), f64);
    cmp_checks!(st, "Dual32", |re: f32, k: usize| Dual32::new(re, pv(k, k) as f32), f32);
    cmp_checks!(st, "Dual2_64", |re: f64, k: usize| Dual2_64::new(re, pv(k, k), pv(k + 1, k)), f64);
    cmp_checks!(st, "Dual2_32", |re: f32, k: usize| Dual2_32::new(re, pv(k, k) as f32, pv(k + 1, k) as f32), f32);
    cmp_checks!(
        st,
        "DualSVec64<2>",
        |re: f64, k: usize| DualVec::<f64, f64, Const<2>>::new(re, if k % 3 == 0 { Derivative::none() } else { Derivative::some(SVector::from([pv(k, k), pv(k + 1, k)])) }),
        f64
    );
    cmp_checks!(
        st,
        "DualDVec64",
        |re: f64, k: usize| DualVec::<f64, f64, Dyn>::new(re, if k % 3 == 0 { Derivative::none() } else { Derivative::some(DVector::from_vec(vec![pv(k, k), pv(k + 1, k), pv(k + 2, k)])) }),
        f64
    );
    cmp_checks!(
        st,
        "Dual2SVec64<2>",
        |re: f64, k: usize| Dual2Vec::<f64, f64, Const<2>>::new(
            re,
            if k % 3 == 0 { Derivative::none() } else { Derivative::some(RowSVector::<f64, 2>::from([pv(k, k), pv(k + 1, k)])) },
            if k % 2 == 0 { Derivative::none() } else { Derivative::some(SMatrix::<f64, 2, 2>::from_fn(|i, j| pv(k + 2 * i + j, k))) }
        ),
        f64
    );
    cmp_checks!(
        st,
        "Dual2DVec32",
        |re: f32, k: usize| Dual2Vec::<f32, f32, Dyn>::new(
            re,
            if k % 3 == 0 { Derivative::none() } else { Derivative::some(RowDVector::<f32>::from_vec(vec![pv(k, k) as f32, pv(k + 1, k) as f32])) },
            if k % 2 == 0 { Derivative::none() } else { Derivative::some(DMatrix::<f32>::from_fn(2, 2, |i, j| pv(k + 2 * i + j, k) as f32)) }
        ),
        f32
    );
}

// ------------------------------------------------------------------------------------------------
// the plain-float instances of the interface

macro_rules! float_instance {
    ($st:expr, $f:ty) => {{
        let xs: Vec<$f> = vec![-9.25, -2.5, -1.0, -0.625, -0.125, -0.0, 0.0, 0.125, 0.3125, 0.75, 1.0, 1.25, 2.0, 3.75, 9.25, 1e-30, 1e30, <$f>::INFINITY, <$f>::NEG_INFINITY, <$f>::NAN, <$f>::MIN_POSITIVE, <$f>::EPSILON];
        let eq = |a: $f, b: $f| a.to_bits() == b.to_bits() || (a.is_nan() && b.is_nan());
        for &x in &xs {
            let table: Vec<(&str, $f, $f)> = vec![
                ("recip", DualNum::recip(&x), x.recip()),
                ("sqrt", DualNum::sqrt(&x), x.sqrt()),
                ("cbrt", DualNum::cbrt(&x), x.cbrt()),
                ("exp", DualNum::exp(&x), x.exp()),
                ("exp2", DualNum::exp2(&x), x.exp2()),
                ("exp_m1", DualNum::exp_m1(&x), x.exp_m1()),
                ("ln", DualNum::ln(&x), x.ln()),
                ("log", DualNum::log(&x, 2.5), x.log(2.5)),
                ("log2", DualNum::log2(&x), x.log2()),
                ("log10", DualNum::log10(&x), x.log10()),
                ("ln_1p", DualNum::ln_1p(&x), x.ln_1p()),
                ("sin", DualNum::sin(&x), x.sin()),
                ("cos", DualNum::cos(&x), x.cos()),
                ("tan", DualNum::tan(&x), x.tan()),
                ("sin_cos.0", DualNum::sin_cos(&x).0, x.sin_cos().0),
                ("sin_cos.1", DualNum::sin_cos(&x).1, x.sin_cos().1),
                ("asin", DualNum::asin(&x), x.asin()),
                ("acos", DualNum::acos(&x), x.acos()),
                ("atan", DualNum::atan(&x), x.atan()),
                ("sinh", DualNum::sinh(&x), x.sinh()),
                ("cosh", DualNum::cosh(&x), x.cosh()),
                ("tanh", DualNum::tanh(&x), x.tanh()),
                ("asinh", DualNum::asinh(&x), x.asinh()),
                ("acosh", DualNum::acosh(&x), x.acosh()),
                ("atanh", DualNum::atanh(&x), x.atanh()),
                ("re", DualNum::re(&x), x),
                ("from_inner", <$f as DualNum<$f>>::from_inner(x), x),
            ];
            for (name, got, want) in table {
                $st.evaluations += 1;
                $st.transitions += 1;
                $st.state(hash64(&(name, stringify!($f), x.to_bits())));
                $st.nontrivial(hash64(&(name, stringify!($f), x.to_bits())));
                $st.outcome(hash64(&(name, got.to_bits())));
                if !eq(got, want) {
                    $st.violation(Violation {
                        sig: format!("float-instance {} {name}", stringify!($f)),
                        case: json!({"float": stringify!($f), "x": x as f64}),
                        what: format!("DualNum::{name}({x:e}) = {got:e} but std gives {want:e}"),
                    });
                }
            }
            for &y in &xs {
                let table: Vec<(&str, $f, $f)> = vec![
                    ("powf", DualNum::powf(&x, y), x.powf(y)),
                    ("powd", DualNum::powd(&x, y), x.powf(y)),
                    ("atan2", DualNum::atan2(&x, y), x.atan2(y)),
                    ("mul_add", DualNum::mul_add(&x, y, 0.75), x.mul_add(y, 0.75)),
                ];
                for (name, got, want) in table {
                    $st.evaluations += 1;
                    if !eq(got, want) {
                        $st.violation(Violation {
                            sig: format!("float-instance {} {name}", stringify!($f)),
                            case: json!({"float": stringify!($f), "x": x as f64, "y": y as f64}),
                            what: format!("DualNum::{name}({x:e},{y:e}) = {got:e} but std gives {want:e}"),
                        });
                    }
                }
            }
            for n in [-7i32, -2, -1, 0, 1, 2, 3, 11, 1000] {
                $st.evaluations += 1;
                if !eq(DualNum::powi(&x, n), x.powi(n)) {
                    $st.violation(Violation {
                        sig: format!("float-instance {} powi", stringify!($f)),
                        case: json!({"float": stringify!($f), "x": x as f64, "n": n}),
                        what: format!("DualNum::powi({x:e},{n}) differs from std"),
                    });
                }
            }
        }
        $st.count("float_instance_nderiv_zero", (<$f as DualNum<$f>>::NDERIV == 0) as u64);
        if <$f as DualNum<$f>>::NDERIV != 0 {
            $st.violation(Violation { sig: format!("float-instance {} NDERIV", stringify!($f)), case: json!({}), what: "NDERIV of a plain float is not 0".into() });
        }
    }};
}

fn universe(tier: Tier, v: &mut impl Visitor) {
    scalar_types(v);
    static_vector_types(Tier::Quick, v);
    dynamic_vector_types(if tier == Tier::Thorough { &[0, 1, 2, 3] } else { &[0, 2] }, v);
    nested_types(tier, v);
}

fn main() {
    quiet_panics();
    let cli = cli();
    if let Some(path) = &cli.replay {
        // a replay re-executes the recorded operation on the recorded operands and on constant
        // operands with the same real parts
        let v = read_replay(path);
        struct R<'a> {
            case: &'a Value,
            ok: bool,
        }
        impl<'a> TypedAction for R<'a> {
            fn act<F: Flt, D: Subject<F>>(&mut self, d: Dims, l: &Layout) {
                let op = op_from_json(&self.case["op"]);
                let parts: Vec<Parts<F>> = self.case["args"].as_array().unwrap().iter().map(parts_from_json::<F>).collect();
                let args: Vec<D> = parts.iter().map(|p| D::build(d, p)).collect();
                let consts: Vec<D> = parts.iter().map(|p| D::from(p.vals[0])).collect();
                let fl: Vec<F> = parts.iter().map(|p| p.vals[0]).collect();
                let a = guarded(|| apply_impl::<F, D>(op, &args).re());
                let b = guarded(|| apply_impl::<F, D>(op, &consts).re());
                let c = apply_impl::<F, F>(op, &fl);
                println!("replay: {} on {}: re with parts {:?}, re with constants {:?}, plain float {:e}", op.name(), l.type_name, a.as_ref().map(|x| x.to64()), b.as_ref().map(|x| x.to64()), c.to64());
                self.ok = match (a, b) {
                    (Ok(a), Ok(b)) => (a.bits() == b.bits() || (a.is_nan() && b.is_nan())) && (!single_call(op) || b.bits() == c.bits() || (b.is_nan() && c.is_nan())),
                    _ => false,
                };
            }
        }
        let case = &v["case"];
        if case["op"].is_null() {
            machinery("this C06 violation class is replayed by re-running ./check C06 quick (comparison / predicate tables are enumerated in full)");
        }
        let mut act = R { case, ok: false };
        let name = case["type"].as_str().unwrap().to_string();
        let mut f = FindType { name: &name, dims: replay_dims(case), action: &mut act, found: false };
        universe(Tier::Thorough, &mut f);
        if !f.found {
            machinery("replay: type not in the universe");
        }
        if act.ok {
            println!("replay: property holds on this case");
            std::process::exit(0);
        }
        println!("VIOLATION property={PROP} replay={path}");
        std::process::exit(1);
    }
    let start = Instant::now();
    let mut stats = Stats::default();
    let tier = if cli.mode == Mode::Quick { Tier::Quick } else { Tier::Thorough };
    let mut e = Enumerate { stats: &mut stats, axes: vec![] };
    universe(tier, &mut e);
    let axes = std::mem::take(&mut e.axes);
    comparisons(&mut stats);
    float_instance!(stats, f64);
    float_instance!(stats, f32);
    stats.sample(|| json!({"op": "div", "type": "Dual3<f64>", "re": [0.75, -2.5], "assignments": "constant / generic / generic / inf / -inf / NaN / 1e300 / -1e-300 / single NaN slot", "check": "real part bits identical"}));
    let rep = Report {
        property: PROP,
        mode: cli.mode,
        seed: cli.seed,
        start,
        rule: "(a) 86 operations (scalar operands 0.0, -0.0, infinite and subnormal included, also as divisors; powf with integer-valued exponents at negative bases) x every type x real grid x 11 operand-part assignments sharing the real parts (constant/absent, generic, +-inf, NaN, 1e300, -1e-300, single NaN slot): real-part bit patterns must coincide; (b) real part vs the same operation on plain floats: within 4 ulp for single-call operations (bit-equal on the current tree), within the bound of the defining expression for the reformulated ones; (c) all ordered pairs of {-inf,-2,-0,+0,1,1',2,+inf,NaN} x 3x3 part variants under == != < <= > >= partial_cmp abs_diff_eq relative_eq ulps_eq and RealField min/max/clamp on the four field types (f32/f64, static/dynamic); is_zero/is_one/is_positive/is_negative/abs/signum on every type; (d) every method of the f32 and f64 instances of DualNum against std on a grid with specials. Non-trivial = operands with non-constant parts.".into(),
        assumptions: vec!["on ties min/max/clamp may return either of the two equal operands".into()],
        extra: json!({"axes": axes}),
        exhaustive: true,
        caps: vec![],
    };
    std::process::exit(finish(rep, stats));
}
