//! C11 — dual numbers satisfy nalgebra's real-field contract.
//! Every RealField / ComplexField / SimdValue item of the four field-compatible types is compared
//! (i) with the float constant, (ii) with the corresponding generic DualNum / operator expression
//! in all parts, (iii) with the same method on plain floats in the real part.

use explore::*;
use harness::*;
use nalgebra::{ComplexField, Const, Dyn, RealField, SimdValue};
use num_dual::*;
use num_traits::{One, Signed, Zero};
use serde_json::json;
use std::time::Instant;
use subject::*;

const PROP: &str = "C11";

fn operands<F: Flt>(l: &Layout, reals: &[f64], salt: usize) -> Vec<Parts<F>> {
    let mut out = Vec::new();
    for (k, re) in reals.iter().enumerate() {
        let g = l.ngroups();
        for pat in 0..(1usize << g) {
            let present: Vec<bool> = (0..g).map(|i| pat & (1 << i) == 0).collect();
            let vals: Vec<F> = (0..l.nslots()).map(|i| F::from64(if i == 0 { *re } else { part_value(i + salt + k, 1 + (i + k) % 3) })).collect();
            out.push(Parts { vals: vals.clone(), present: present.clone() });
            // derivative entries that cancel in their sum (1, -1, 2, -2, ...): a test for "all zero"
            // written as a reduction drops such a part
            if k == 1 {
                let cancel: Vec<F> = (0..l.nslots()).map(|i| if i == 0 { vals[0] } else { F::from64(if i % 2 == 1 { (i + 1) as f64 / 2.0 } else { -(i as f64) / 2.0 }) }).collect();
                out.push(Parts { vals: cancel, present: present.clone() });
            }
            // the same with every other derivative entry exactly zero (unit-seed like patterns)
            if k == 0 {
                let sparse: Vec<F> = vals.iter().enumerate().map(|(i, v)| if i > 0 && (i + pat) % 2 == 0 { F::zero() } else { *v }).collect();
                out.push(Parts { vals: sparse, present: present.clone() });
            }
            // exactly one derivative entry zero (e.g. a vanishing first derivative next to a non-zero
            // second one), all parts present
            if k == 1 && pat == 0 {
                for z in 1..l.nslots().min(7) {
                    let one_zero: Vec<F> = vals.iter().enumerate().map(|(i, v)| if i == z { F::zero() } else { *v }).collect();
                    out.push(Parts { vals: one_zero, present: present.clone() });
                }
            }
        }
    }
    out
}

fn bits_same<F: Flt>(l: &Layout, a: &Parts<F>, b: &Parts<F>) -> Option<usize> {
    (0..l.nslots()).find(|&i| {
        let (x, y) = (a.alpha(l, i), b.alpha(l, i));
        !(x.bits() == y.bits() || x == y || (x.is_nan() && y.is_nan()))
    })
}

macro_rules! field_checks {
    ($st:expr, $ty:ty, $f:ty, $d:expr) => {{
        type D = $ty;
        type F = $f;
        let d: Dims = $d;
        let l = <D as Subject<F>>::layout(d);
        let l = &l;
        let tn = l.type_name.clone();
        let mk = |p: &Parts<F>| <D as Subject<F>>::build(d, p);
        let pt = |x: &D| <D as Subject<F>>::parts(x, d);
        let u = <F as Flt>::U;
        // ---------------------------------------------------------------- constants
        let consts: Vec<(&str, D, F)> = vec![
            ("pi", <D as RealField>::pi(), <F as RealField>::pi()),
            ("two_pi", <D as RealField>::two_pi(), <F as RealField>::two_pi()),
            ("frac_pi_2", <D as RealField>::frac_pi_2(), <F as RealField>::frac_pi_2()),
            ("frac_pi_3", <D as RealField>::frac_pi_3(), <F as RealField>::frac_pi_3()),
            ("frac_pi_4", <D as RealField>::frac_pi_4(), <F as RealField>::frac_pi_4()),
            ("frac_pi_6", <D as RealField>::frac_pi_6(), <F as RealField>::frac_pi_6()),
            ("frac_pi_8", <D as RealField>::frac_pi_8(), <F as RealField>::frac_pi_8()),
            ("frac_1_pi", <D as RealField>::frac_1_pi(), <F as RealField>::frac_1_pi()),
            ("frac_2_pi", <D as RealField>::frac_2_pi(), <F as RealField>::frac_2_pi()),
            ("frac_2_sqrt_pi", <D as RealField>::frac_2_sqrt_pi(), <F as RealField>::frac_2_sqrt_pi()),
            ("e", <D as RealField>::e(), <F as RealField>::e()),
            ("log2_e", <D as RealField>::log2_e(), <F as RealField>::log2_e()),
            ("log10_e", <D as RealField>::log10_e(), <F as RealField>::log10_e()),
            ("ln_2", <D as RealField>::ln_2(), <F as RealField>::ln_2()),
            ("ln_10", <D as RealField>::ln_10(), <F as RealField>::ln_10()),
            ("min_value", <D as RealField>::min_value().unwrap(), <F as RealField>::min_value().unwrap()),
            ("max_value", <D as RealField>::max_value().unwrap(), <F as RealField>::max_value().unwrap()),
            ("zero", <D as Zero>::zero(), 0.0),
            ("one", <D as One>::one(), 1.0),
        ];
        for (name, got, want) in consts {
            $st.evaluations += 1;
            $st.state(hash64(&(tn.as_str(), "const", name)));
            let p = pt(&got);
            if p.vals[0].to_bits() != want.to_bits() || (1..l.nslots()).any(|i| p.alpha(l, i) != 0.0) {
                $st.violation(Violation {
                    sig: format!("constant {name} {tn}"),
                    case: json!({"type": tn, "constant": name}),
                    what: format!("RealField::{name}() = {:e} with parts {:?}; the float constant is {:e}", p.vals[0] as f64, p.vals.iter().map(|v| *v as f64).collect::<Vec<_>>(), want as f64),
                });
            }
        }
        if <D as SimdValue>::LANES != 1 {
            $st.violation(Violation { sig: format!("simd LANES {tn}"), case: json!({"type": tn}), what: "LANES != 1".into() });
        }
        // ---------------------------------------------------------------- unary methods
        let reals = [-2.5, -0.625, 0.3125, 0.75, 1.25, 2.0, 0.0, -0.0];
        let xs = operands::<F>(l, &reals, 0);
        // 2 and 10: values a `log(base)` implementation may special-case
        let ys = operands::<F>(l, &[-1.25, 0.5, 1.5, 0.0, -0.0, 2.0, 10.0], l.nslots());
        // predicates on special values: non-finite real parts, and finite real parts carrying
        // non-finite derivative parts (e.g. sqrt of a seeded zero) - the real part alone decides
        for re in [1.5, 0.0, -0.0, f64::INFINITY, f64::NEG_INFINITY, f64::NAN] {
            for dv in [0.75, f64::INFINITY, f64::NEG_INFINITY, f64::NAN] {
                for pat in 0..(1usize << l.ngroups()) {
                    let present: Vec<bool> = (0..l.ngroups()).map(|i| pat & (1 << i) == 0).collect();
                    let px = Parts::<F> { vals: (0..l.nslots()).map(|i| (if i == 0 { re } else { dv }) as F).collect(), present };
                    let x: D = <D as Subject<F>>::build(d, &px);
                    let xf = re as F;
                    $st.evaluations += 3;
                    $st.state(hash64(&(tn.as_str(), "predicates", px.bits(), px.present.clone())));
                    // the polar / exponential decompositions at zero and at non-finite real parts: the
                    // sign convention of the float methods (to_exp(+-0) = (0, 1), signum(+-0) = +-1)
                    // (-0.0 and non-finite real parts are left out: there the PROVIDED methods of nalgebra, which the dual types
                    // inherit, and the overrides of f32 / f64 differ by design: signum(-0.0) = 1 vs -1)
                    if dv == 0.75 && re.is_finite() && !(re == 0.0 && re.is_sign_negative()) {
                        let (m, sg) = ComplexField::to_exp(x.clone());
                        let (mf, sf) = ComplexField::to_exp(xf);
                        let sn = ComplexField::signum(x.clone()).re();
                        let snf = ComplexField::signum(xf);
                        $st.evaluations += 3;
                        let same = |a: F, b: F| a.to_bits() == b.to_bits() || (a.is_nan() && b.is_nan());
                        if !same(m.re(), mf) || !same(sg.re(), sf) || !same(sn, snf) {
                            $st.violation(Violation { sig: format!("method to_exp/signum {tn} special values"), case: json!({"type": tn, "x": parts_to_json(&px)}), what: format!("to_exp({re:e}) = ({:e}, {:e}), signum = {:e}; the float methods give ({:e}, {:e}) and {:e}", m.re() as f64, sg.re() as f64, sn as f64, mf as f64, sf as f64, snf as f64) });
                        }
                    }
                    // the sign methods at zero and at infinite real parts: the result is the operand
                    // itself or its negation, with the operand's own derivative parts (a product with
                    // a sign factor would turn them into NaN at an infinite real part)
                    if dv == 0.75 && !re.is_nan() {
                        let neg = xf.is_sign_negative();
                        let two: D = <D as From<F>>::from(2.0 as F);
                        let mzero: D = <D as From<F>>::from(-0.0 as F);
                        let items: [(&str, D, bool); 6] = [
                            ("abs", ComplexField::abs(x.clone()), neg),
                            ("modulus", ComplexField::modulus(x.clone()), neg),
                            ("norm1", ComplexField::norm1(x.clone()), neg),
                            ("copysign(2)", RealField::copysign(x.clone(), two), neg),
                            ("copysign(-0.0)", RealField::copysign(x.clone(), mzero), !neg),
                            ("simd_abs", simba::simd::SimdComplexField::simd_abs(x.clone()), neg),
                        ];
                        for (m, got, flip) in items {
                            $st.evaluations += 1;
                            let g = <D as Subject<F>>::parts(&got, d);
                            let sgn = if flip { -1.0 as F } else { 1.0 as F };
                            let ok = (0..l.nslots()).all(|k| {
                                let (u, w) = (g.alpha(l, k), sgn * px.alpha(l, k));
                                if k == 0 { u.to_bits() == w.to_bits() } else { u == w }
                            });
                            if !ok {
                                $st.violation(Violation { sig: format!("method {m} {tn} special values"), case: json!({"type": tn, "x": parts_to_json(&px)}), what: format!("{m} at real part {re:e}: parts {:?}, expected the operand's own parts{}", g.vals.iter().map(|v| *v as f64).collect::<Vec<_>>(), if flip { " negated" } else { "" }) });
                            }
                        }
                    }
                    // try_sqrt answers Some / None as the float method does (NaN is refused: nalgebra's
                    // Cholesky relies on it); zero is left out - see DESIGN 10.4
                    if re != 0.0 {
                        $st.evaluations += 1;
                        let (g, w) = (ComplexField::try_sqrt(x.clone()).is_some(), ComplexField::try_sqrt(xf).is_some());
                        if g != w {
                            $st.violation(Violation { sig: format!("method try_sqrt {tn} special values"), case: json!({"type": tn, "x": parts_to_json(&px)}), what: format!("try_sqrt at real part {re:e} is {} but the float method gives {}", if g { "Some" } else { "None" }, if w { "Some" } else { "None" }) });
                        }
                    }
                    if ComplexField::is_finite(&x) != xf.is_finite() || RealField::is_sign_positive(&x) != xf.is_sign_positive() || RealField::is_sign_negative(&x) != xf.is_sign_negative() {
                        $st.violation(Violation { sig: format!("method predicates {tn} special values"), case: json!({"type": tn, "x": parts_to_json(&px)}), what: format!("is_finite / is_sign_* not decided by the real part {re:e} (derivative parts {dv:e})") });
                    }
                }
            }
        }
        type Un = (&'static str, fn(f64) -> bool, fn(D) -> D, fn(&D) -> D, fn(F) -> F, bool);
        let all = |_: f64| true;
        let pos = |x: f64| x > 0.0;
        let unit = |x: f64| x.abs() < 1.0;
        let gt1 = |x: f64| x > 1.0;
        let gtm1 = |x: f64| x > -1.0;
        let nz = |x: f64| x != 0.0;
        let unary: Vec<Un> = vec![
            ("sin", all, |x| ComplexField::sin(x), |x| DualNum::sin(x), |x| ComplexField::sin(x), true),
            ("cos", all, |x| ComplexField::cos(x), |x| DualNum::cos(x), |x| ComplexField::cos(x), true),
            ("tan", all, |x| ComplexField::tan(x), |x| DualNum::tan(x), |x| ComplexField::tan(x), false),
            ("asin", unit, |x| ComplexField::asin(x), |x| DualNum::asin(x), |x| ComplexField::asin(x), true),
            ("acos", unit, |x| ComplexField::acos(x), |x| DualNum::acos(x), |x| ComplexField::acos(x), true),
            ("atan", all, |x| ComplexField::atan(x), |x| DualNum::atan(x), |x| ComplexField::atan(x), true),
            ("sinh", all, |x| ComplexField::sinh(x), |x| DualNum::sinh(x), |x| ComplexField::sinh(x), true),
            ("cosh", all, |x| ComplexField::cosh(x), |x| DualNum::cosh(x), |x| ComplexField::cosh(x), true),
            ("tanh", all, |x| ComplexField::tanh(x), |x| DualNum::tanh(x), |x| ComplexField::tanh(x), false),
            ("asinh", all, |x| ComplexField::asinh(x), |x| DualNum::asinh(x), |x| ComplexField::asinh(x), true),
            ("acosh", gt1, |x| ComplexField::acosh(x), |x| DualNum::acosh(x), |x| ComplexField::acosh(x), true),
            ("atanh", unit, |x| ComplexField::atanh(x), |x| DualNum::atanh(x), |x| ComplexField::atanh(x), true),
            ("ln", pos, |x| ComplexField::ln(x), |x| DualNum::ln(x), |x| ComplexField::ln(x), true),
            ("log2", pos, |x| ComplexField::log2(x), |x| DualNum::log2(x), |x| ComplexField::log2(x), true),
            ("log10", pos, |x| ComplexField::log10(x), |x| DualNum::log10(x), |x| ComplexField::log10(x), true),
            ("ln_1p", gtm1, |x| ComplexField::ln_1p(x), |x| DualNum::ln_1p(x), |x| ComplexField::ln_1p(x), true),
            ("sqrt", pos, |x| ComplexField::sqrt(x), |x| DualNum::sqrt(x), |x| ComplexField::sqrt(x), true),
            ("cbrt", nz, |x| ComplexField::cbrt(x), |x| DualNum::cbrt(x), |x| ComplexField::cbrt(x), true),
            ("exp", all, |x| ComplexField::exp(x), |x| DualNum::exp(x), |x| ComplexField::exp(x), true),
            ("exp2", all, |x| ComplexField::exp2(x), |x| DualNum::exp2(x), |x| ComplexField::exp2(x), true),
            ("exp_m1", all, |x| ComplexField::exp_m1(x), |x| DualNum::exp_m1(x), |x| ComplexField::exp_m1(x), true),
            ("recip", nz, |x| ComplexField::recip(x), |x| DualNum::recip(x), |x| ComplexField::recip(x), true),
            ("powi(3)", all, |x| ComplexField::powi(x, 3), |x| DualNum::powi(x, 3), |x| ComplexField::powi(x, 3), false),
            ("powi(-2)", nz, |x| ComplexField::powi(x, -2), |x| DualNum::powi(x, -2), |x| ComplexField::powi(x, -2), false),
            ("abs", nz, |x| ComplexField::abs(x), |x| Signed::abs(x), |x| ComplexField::abs(x), true),
            ("modulus", nz, |x| ComplexField::modulus(x), |x| Signed::abs(x), |x| ComplexField::modulus(x), true),
            ("norm1", nz, |x| ComplexField::norm1(x), |x| Signed::abs(x), |x| ComplexField::norm1(x), true),
            ("modulus_squared", all, |x| ComplexField::modulus_squared(x), |x| x.clone() * x.clone(), |x| ComplexField::modulus_squared(x), true),
            ("conjugate", all, |x| ComplexField::conjugate(x), |x| x.clone(), |x| ComplexField::conjugate(x), true),
            ("real", all, |x| ComplexField::real(x), |x| x.clone(), |x| ComplexField::real(x), true),
            ("from_real", all, |x| <D as ComplexField>::from_real(x), |x| x.clone(), |x| <F as ComplexField>::from_real(x), true),
            ("imaginary", all, |x| ComplexField::imaginary(x), |_| <D as Zero>::zero(), |x| ComplexField::imaginary(x), true),
            ("argument", all, |x| ComplexField::argument(x), |x| if x.re() >= 0.0 { <D as Zero>::zero() } else { <D as RealField>::pi() }, |x| ComplexField::argument(x), true),
            ("signum", nz, |x| ComplexField::signum(x), |x| x.clone() / Signed::abs(x), |x| ComplexField::signum(x), true),
            ("sinc", nz, |x| ComplexField::sinc(x), |x| DualNum::sin(x) / x.clone(), |x| ComplexField::sinc(x), false),
            ("sinhc", nz, |x| ComplexField::sinhc(x), |x| DualNum::sinh(x) / x.clone(), |x| ComplexField::sinhc(x), false),
            ("cosc", nz, |x| ComplexField::cosc(x), |x| DualNum::cos(x) / x.clone(), |x| ComplexField::cosc(x), false),
            ("coshc", nz, |x| ComplexField::coshc(x), |x| DualNum::cosh(x) / x.clone(), |x| ComplexField::coshc(x), false),
            ("sin_cos.0", all, |x| ComplexField::sin_cos(x).0, |x| DualNum::sin_cos(x).0, |x| ComplexField::sin_cos(x).0, true),
            ("sin_cos.1", all, |x| ComplexField::sin_cos(x).1, |x| DualNum::sin_cos(x).1, |x| ComplexField::sin_cos(x).1, true),
            ("sinh_cosh.0", all, |x| ComplexField::sinh_cosh(x).0, |x| DualNum::sinh(x), |x| ComplexField::sinh_cosh(x).0, true),
            ("sinh_cosh.1", all, |x| ComplexField::sinh_cosh(x).1, |x| DualNum::cosh(x), |x| ComplexField::sinh_cosh(x).1, true),
            ("to_polar.0", nz, |x| ComplexField::to_polar(x).0, |x| Signed::abs(x), |x| ComplexField::to_polar(x).0, true),
            ("to_polar.1", nz, |x| ComplexField::to_polar(x).1, |x| if x.re() >= 0.0 { <D as Zero>::zero() } else { <D as RealField>::pi() }, |x| ComplexField::to_polar(x).1, true),
            ("to_exp.0", nz, |x| ComplexField::to_exp(x).0, |x| Signed::abs(x), |x| ComplexField::to_exp(x).0, true),
            ("to_exp.1", nz, |x| ComplexField::to_exp(x).1, |x| x.clone() / Signed::abs(x), |x| ComplexField::to_exp(x).1, true),
            ("try_sqrt", pos, |x| ComplexField::try_sqrt(x).unwrap(), |x| DualNum::sqrt(x), |x| ComplexField::try_sqrt(x).unwrap(), true),
            ("copysign(+)", all, |x| RealField::copysign(x, <D as One>::one()), |x| Signed::abs(x), |x| RealField::copysign(x, 1.0), true),
            ("copysign(-)", all, |x| RealField::copysign(x, -<D as One>::one()), |x| -Signed::abs(x), |x| RealField::copysign(x, -1.0), true),
        ];
        for px in &xs {
            let x: D = mk(px);
            let xf: F = px.vals[0];
            for (name, dom, got, want, fl, exact_re) in &unary {
                if !dom(xf as f64) {
                    continue;
                }
                $st.evaluations += 1;
                $st.transitions += 1;
                let key = hash64(&(tn.as_str(), *name, px.bits(), px.present.clone()));
                $st.state(key);
                $st.nontrivial(key);
                let g = match guarded(|| pt(&got(x.clone()))) {
                    Ok(g) => g,
                    Err(m) => {
                        $st.violation(Violation { sig: format!("method {name} {tn} panic"), case: json!({"type": tn, "method": name, "x": parts_to_json(px)}), what: format!("panicked: {m}") });
                        continue;
                    }
                };
                $st.outcome(hash64(&g.bits()));
                let w = pt(&want(&x));
                if let Some(i) = bits_same(l, &g, &w) {
                    $st.violation(Violation {
                        sig: format!("method {name} {tn} vs-generic"),
                        case: json!({"type": tn, "method": name, "x": parts_to_json(px)}),
                        what: format!("{name}: slot {} is {:e}, the generic operation gives {:e}", l.slots[i].name, g.alpha(l, i) as f64, w.alpha(l, i) as f64),
                    });
                    continue;
                }
                let f = fl(xf);
                let re = g.vals[0];
                let ok = if *exact_re { re.to_bits() == f.to_bits() || re == f } else { ((re - f).abs() as f64) <= 64.0 * u * (f.abs() as f64).max(1e-300) };
                if !ok {
                    $st.violation(Violation {
                        sig: format!("method {name} {tn} vs-float"),
                        case: json!({"type": tn, "method": name, "x": parts_to_json(px)}),
                        what: format!("{name}({:e}): real part {:e}, the float method gives {:e}", xf as f64, re as f64, f as f64),
                    });
                }
            }
            // predicates
            $st.evaluations += 3;
            if ComplexField::is_finite(&x) != xf.is_finite() || RealField::is_sign_positive(&x) != xf.is_sign_positive() || RealField::is_sign_negative(&x) != xf.is_sign_negative() {
                $st.violation(Violation { sig: format!("method predicates {tn}"), case: json!({"type": tn, "x": parts_to_json(px)}), what: "is_finite / is_sign_* not decided by the real part".into() });
            }
            if ComplexField::try_sqrt(-Signed::abs(&x)).is_some() && xf != 0.0 {
                $st.violation(Violation { sig: format!("method try_sqrt {tn}"), case: json!({"type": tn, "x": parts_to_json(px)}), what: "try_sqrt of a negative number is Some".into() });
            }
            // ---------------- SimdValue: single-lane view round-trips values unchanged
            {
                let s = <D as SimdValue>::splat(x.clone());
                let e0 = SimdValue::extract(&x, 0);
                let e1 = unsafe { SimdValue::extract_unchecked(&x, 0) };
                let m1 = SimdValue::map_lanes(x.clone(), |e| e);
                let checks: Vec<(&str, Parts<F>)> = vec![("splat", pt(&s)), ("extract", pt(&e0)), ("extract_unchecked", pt(&e1)), ("map_lanes", pt(&m1))];
                for (name, g) in checks {
                    $st.evaluations += 1;
                    if let Some(i) = bits_same(l, &g, px) {
                        $st.violation(Violation {
                            sig: format!("simd {name} {tn}"),
                            case: json!({"type": tn, "x": parts_to_json(px)}),
                            what: format!("{name}: slot {} changed from {:e} to {:e}", l.slots[i].name, px.alpha(l, i) as f64, g.alpha(l, i) as f64),
                        });
                    }
                }
            }
            // ---------------- binary methods
            for py in &ys {
                let y: D = mk(py);
                let yf: F = py.vals[0];
                type Bin = (&'static str, fn(f64, f64) -> bool, fn(D, D) -> D, fn(&D, &D) -> D, fn(F, F) -> F, f64);
                let binary: Vec<Bin> = vec![
                    ("scale", |_, _| true, |a, b| ComplexField::scale(a, b), |a, b| a.clone() * b.clone(), |a, b| ComplexField::scale(a, b), 0.0),
                    ("unscale", |_, b| b != 0.0, |a, b| ComplexField::unscale(a, b), |a, b| a.clone() / b.clone(), |a, b| ComplexField::unscale(a, b), 8.0),
                    ("hypot", |_, _| true, |a, b| ComplexField::hypot(a, b), |a, b| DualNum::sqrt(&(DualNum::powi(a, 2) + DualNum::powi(b, 2))), |a, b| ComplexField::hypot(a, b), 16.0),
                    ("log", |a, b| a > 0.0 && b > 0.0 && b != 1.0, |a, b| ComplexField::log(a, b), |a, b| DualNum::ln(a) / DualNum::ln(b), |a, b| ComplexField::log(a, b), 64.0),
                    ("powf", |a, _| a > 0.0 && a != 1.0, |a, b| ComplexField::powf(a, b), |a, b| DualNum::powd(a, b.clone()), |a, b| ComplexField::powf(a, b), 64.0),
                    ("powc", |a, _| a > 0.0, |a, b| ComplexField::powc(a, b), |a, b| DualNum::powd(a, b.clone()), |a, b| ComplexField::powc(a, b), 64.0),
                    ("atan2", |_, _| true, |a, b| RealField::atan2(a, b), |a, b| DualNum::atan2(a, b.clone()), |a, b| RealField::atan2(a, b), 0.0),
                    ("mul_add", |_, _| true, |a, b| ComplexField::mul_add(a.clone(), b, a), |a, b| DualNum::mul_add(a, b.clone(), a.clone()), |a, b| ComplexField::mul_add(a, b, a), 8.0),
                    ("min", |_, _| true, |a, b| RealField::min(a, b), |a, b| if b.re() < a.re() { b.clone() } else { a.clone() }, |a, b| RealField::min(a, b), 0.0),
                    ("max", |_, _| true, |a, b| RealField::max(a, b), |a, b| if b.re() > a.re() { b.clone() } else { a.clone() }, |a, b| RealField::max(a, b), 0.0),
                    ("copysign", |_, _| true, |a, b| RealField::copysign(a, b), |a, b| if b.re().is_sign_positive() { Signed::abs(a) } else { -Signed::abs(a) }, |a, b| RealField::copysign(a, b), 0.0),
                ];
                for (name, dom, got, want, fl, ulps) in &binary {
                    if !dom(xf as f64, yf as f64) {
                        continue;
                    }
                    $st.evaluations += 1;
                    $st.transitions += 1;
                    let key = hash64(&(tn.as_str(), *name, px.bits(), py.bits(), px.present.clone(), py.present.clone()));
                    $st.state(key);
                    $st.nontrivial(key);
                    let g = match guarded(|| pt(&got(x.clone(), y.clone()))) {
                        Ok(g) => g,
                        Err(m) => {
                            $st.violation(Violation { sig: format!("method {name} {tn} panic"), case: json!({"type": tn, "method": name}), what: format!("panicked: {m}") });
                            continue;
                        }
                    };
                    $st.outcome(hash64(&g.bits()));
                    let w = pt(&want(&x, &y));
                    if let Some(i) = bits_same(l, &g, &w) {
                        $st.violation(Violation {
                            sig: format!("method {name} {tn} vs-generic"),
                            case: json!({"type": tn, "method": name, "x": parts_to_json(px), "y": parts_to_json(py)}),
                            what: format!("{name}: slot {} is {:e}, the generic operation gives {:e}", l.slots[i].name, g.alpha(l, i) as f64, w.alpha(l, i) as f64),
                        });
                        continue;
                    }
                    let f = fl(xf, yf);
                    let re = g.vals[0];
                    let ok = if *ulps == 0.0 { re == f || re.to_bits() == f.to_bits() } else { ((re - f).abs() as f64) <= ulps * u * (f.abs() as f64).max(1e-300) };
                    if !ok {
                        $st.violation(Violation {
                            sig: format!("method {name} {tn} vs-float"),
                            case: json!({"type": tn, "method": name, "x": parts_to_json(px), "y": parts_to_json(py)}),
                            what: format!("{name}({:e},{:e}): real part {:e}, the float method gives {:e}", xf as f64, yf as f64, re as f64, f as f64),
                        });
                    }
                }
                // clamp(x; lo, hi) with lo <= hi
                let (lo, hi) = if yf <= (1.75 as F) { (y.clone(), mk(&ys[ys.len() - 1])) } else { (mk(&ys[0]), y.clone()) };
                if lo.re() <= hi.re() {
                    let c = RealField::clamp(x.clone(), lo.clone(), hi.clone());
                    let want = if x.re() < lo.re() { lo.clone() } else if x.re() > hi.re() { hi.clone() } else { x.clone() };
                    $st.evaluations += 1;
                    if let Some(i) = bits_same(l, &pt(&c), &pt(&want)) {
                        $st.violation(Violation {
                            sig: format!("method clamp {tn}"),
                            case: json!({"type": tn, "x": parts_to_json(px)}),
                            what: format!("clamp: slot {} is not that of the selected operand", l.slots[i].name),
                        });
                    }
                }
                // clamp of a NaN stays NaN (as for floats)
                {
                    let mut pn = px.clone();
                    pn.vals[0] = F::from64(f64::NAN);
                    let c = RealField::clamp(mk(&pn), mk(&ys[0]), mk(&ys[ys.len() - 1]));
                    $st.evaluations += 1;
                    if ys[0].vals[0] <= ys[ys.len() - 1].vals[0] && !c.re().is_nan() {
                        $st.violation(Violation {
                            sig: format!("method clamp {tn} nan"),
                            case: json!({"type": tn, "x": parts_to_json(&pn)}),
                            what: format!("clamp(NaN; lo, hi) has real part {:e}, the float method gives NaN", c.re() as f64),
                        });
                    }
                }
                // replace / select / zip_map_lanes
                let mut r = x.clone();
                SimdValue::replace(&mut r, 0, y.clone());
                let mut r2 = x.clone();
                unsafe { SimdValue::replace_unchecked(&mut r2, 0, y.clone()) };
                let st_ = SimdValue::select(x.clone(), true, y.clone());
                let sf = SimdValue::select(x.clone(), false, y.clone());
                let z = SimdValue::zip_map_lanes(x.clone(), y.clone(), |_, b| b);
                let checks: Vec<(&str, Parts<F>, &Parts<F>)> = vec![
                    ("replace", pt(&r), py),
                    ("replace_unchecked", pt(&r2), py),
                    ("select(true)", pt(&st_), px),
                    ("select(false)", pt(&sf), py),
                    ("zip_map_lanes", pt(&z), py),
                ];
                // the same with a constant whose derivative parts are absent (whatever the presence
                // pattern of the receiver): no stale part of the receiver may survive
                let k: D = <D as From<F>>::from(y.re());
                let pk = pt(&k);
                let mut r3 = x.clone();
                SimdValue::replace(&mut r3, 0, k.clone());
                let mut r4 = x.clone();
                unsafe { SimdValue::replace_unchecked(&mut r4, 0, k.clone()) };
                let s4 = SimdValue::select(x.clone(), false, k.clone());
                let s5 = SimdValue::select(k.clone(), true, x.clone());
                let z4 = SimdValue::zip_map_lanes(x.clone(), k.clone(), |_, b| b);
                let mut r5 = k.clone();
                SimdValue::replace(&mut r5, 0, x.clone());
                let mut checks = checks;
                checks.push(("replace by a constant", pt(&r3), &pk));
                checks.push(("replace_unchecked by a constant", pt(&r4), &pk));
                checks.push(("select(false) of a constant", pt(&s4), &pk));
                checks.push(("select(true) on a constant", pt(&s5), &pk));
                checks.push(("zip_map_lanes with a constant", pt(&z4), &pk));
                checks.push(("replace of a constant", pt(&r5), px));
                for (name, g, want) in checks {
                    $st.evaluations += 1;
                    if let Some(i) = bits_same(l, &g, want) {
                        $st.violation(Violation {
                            sig: format!("simd {name} {tn}"),
                            case: json!({"type": tn, "x": parts_to_json(px), "y": parts_to_json(py)}),
                            what: format!("{name}: slot {} is {:e}, expected {:e}", l.slots[i].name, g.alpha(l, i) as f64, want.alpha(l, i) as f64),
                        });
                    }
                }
            }
        }
        $st.sample(|| json!({"type": tn, "unary_methods": unary.len(), "binary_methods": 11, "constants": 19, "simd_items": 10, "operand": parts_to_json(&xs[xs.len() / 2])}));
    }};
}

fn run_all(st: &mut Stats) {
    field_checks!(st, Dual64, f64, Dims::NONE);
    field_checks!(st, Dual32, f32, Dims::NONE);
    field_checks!(st, Dual2_64, f64, Dims::NONE);
    field_checks!(st, Dual2_32, f32, Dims::NONE);
    field_checks!(st, DualVec<f64, f64, Const<2>>, f64, Dims::n(2));
    field_checks!(st, DualVec<f32, f32, Const<2>>, f32, Dims::n(2));
    field_checks!(st, DualVec<f64, f64, Dyn>, f64, Dims::n(3));
    field_checks!(st, Dual2Vec<f64, f64, Const<2>>, f64, Dims::n(2));
    field_checks!(st, Dual2Vec<f64, f64, Dyn>, f64, Dims::n(2));
    field_checks!(st, Dual2Vec<f32, f32, Dyn>, f32, Dims::n(2));
}

fn main() {
    quiet_panics();
    let cli = cli();
    let start = Instant::now();
    let mut stats = Stats::default();
    if let Err(m) = guarded(|| run_all(&mut stats)) {
        stats.violation(Violation { sig: "field method panic".into(), case: json!({}), what: format!("panicked: {m}") });
    }
    if let Some(path) = &cli.replay {
        let v = read_replay(path);
        let sig = v["sig"].as_str().unwrap_or("");
        if let Some((n, viol)) = stats.violations.get(sig) {
            println!("replay: {sig}: {} ({n} cases)", viol.what);
            println!("VIOLATION property={PROP} replay={path}");
            std::process::exit(1);
        }
        println!("replay: property holds on this case");
        std::process::exit(0);
    }
    let rep = Report {
        property: PROP,
        mode: cli.mode,
        seed: cli.seed,
        start,
        rule: "for Dual, DualVec (static 2, dynamic 3), Dual2, Dual2Vec (static 2, dynamic 2) over f32 and f64: 19 constants, 50 unary and 12 binary RealField/ComplexField methods (provided methods to_polar, to_exp, signum, sinc, sinhc, cosc, coshc, sinh_cosh included; log with a dual base, powf/powc with a dual exponent), the SimdValue items (LANES, splat, extract, extract_unchecked, replace, replace_unchecked, select, map_lanes, zip_map_lanes; each also with a constant operand whose parts are absent) x operand grid of 6 x 3 real parts, both signs x every presence pattern x generic non-unit parts. Oracle: (i) constant = float constant bits, zero parts; (ii) method = generic DualNum/operator expression, all parts bit-equal; (iii) real part = same method on plain floats (bit-equal for single-call methods, within 8..64 u for reformulated/composite ones); selection methods return the selected operand with its own parts.".into(),
        assumptions: vec!["panicking-by-design methods (floor, ceil, round, trunc, fract) are outside the alphabet".into()],
        extra: json!({}),
        exhaustive: true,
        caps: vec![],
    };
    std::process::exit(finish(rep, stats));
}
