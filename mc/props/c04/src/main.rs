//! C04 — all number types, nestings and storage variants agree on shared derivatives.
//! Differential oracle: the same program is evaluated through every route (type x seeding) that
//! exposes a given partial derivative; all routes must agree within the sum of their rounding
//! bounds.  Plus the compile-time NDERIV table of all nestings up to depth 3.

mod nderiv_table;

use explore::*;
use harness::*;
use refmodel::DD;
use serde_json::json;
use std::collections::BTreeMap;
use std::time::Instant;
use subject::*;

const PROP: &str = "C04";

fn alphabet() -> Alphabet {
    use Op::*;
    Alphabet {
        unary: vec![Recip, Sqrt, Exp, Ln, Sin, Cos, Tan, Atan, Tanh, Asinh, Powi(3), Powf(2.5), Neg, MulF(-1.5), AddAF(0.75), SphJ1],
        binary: vec![Add, Sub, Mul, Div, MulA, Atan2, Powd],
        ternary: vec![MulAdd],
        nary: vec![Product(3)],
    }
}

fn programs(max_len: usize) -> Vec<Program> {
    let a = alphabet();
    let mut out = Vec::new();
    let l1 = a.steps(3, false);
    for s in &l1 {
        out.push(Program { n_inputs: 3, steps: vec![s.clone()] });
    }
    if max_len >= 2 {
        let l2 = a.steps(4, true);
        for s1 in &l1 {
            for s2 in &l2 {
                out.push(Program { n_inputs: 3, steps: vec![s1.clone(), s2.clone()] });
            }
        }
    }
    out
}

/// one evaluation route: a type with an assignment generator -> input variable
struct RouteResult {
    name: String,
    u: f64,
    /// per program index: key (sorted variable multiset) -> (value, bound)
    tables: Vec<Option<BTreeMap<Vec<u8>, (f64, f64)>>>,
}

struct Routes<'a> {
    progs: &'a [Program],
    point: (f64, f64),
    results: Vec<RouteResult>,
    stats: &'a mut Stats,
    /// assignments to use for the next visited type: list of generator -> variable maps
    pending: Vec<Vec<u8>>,
}

impl<'a> Routes<'a> {
    fn with(&mut self, assigns: &[&[u8]]) -> &mut Self {
        self.pending = assigns.iter().map(|a| a.to_vec()).collect();
        self
    }
}

fn seeded<F: Flt>(l: &Layout, re: f64, var: u8, assign: &[u8]) -> Parts<F> {
    // slot = 1 iff all its monomials are single generators assigned to `var`
    let vals: Vec<F> = l
        .slots
        .iter()
        .enumerate()
        .map(|(i, s)| {
            if i == 0 {
                return F::from64(re);
            }
            let one = s.monos.iter().all(|m| m.count_ones() == 1 && assign[m.trailing_zeros() as usize] == var);
            F::from64(if one { 1.0 } else { 0.0 })
        })
        .collect();
    // presence as the drivers produce it: a group is present iff it holds a seed
    let mut present = vec![false; l.ngroups()];
    for (i, s) in l.slots.iter().enumerate() {
        if i > 0 && vals[i] != F::zero() {
            for g in &s.groups {
                present[*g] = true;
            }
        }
    }
    Parts { vals, present }
}

impl<'a> Visitor for Routes<'a> {
    fn visit<F: Flt, D: Subject<F>>(&mut self, d: Dims) {
        let l = D::layout(d);
        let assigns = std::mem::take(&mut self.pending);
        for assign in assigns {
            assert_eq!(assign.len(), l.ngen as usize, "MACHINERY: assignment length for {}", l.type_name);
            // the symmetric slots need all their generators on one variable
            for s in &l.slots {
                let vs: Vec<Vec<u8>> = s.monos.iter().map(|m| {
                    let mut k: Vec<u8> = (0..l.ngen).filter(|g| m & (1 << g) != 0).map(|g| assign[g as usize]).collect();
                    k.sort();
                    k
                }).collect();
                assert!(vs.windows(2).all(|w| w[0] == w[1]), "MACHINERY: inconsistent assignment for symmetric slot {}", s.name);
            }
            let inputs = vec![
                seeded::<F>(&l, self.point.0, 0, &assign),
                seeded::<F>(&l, self.point.1, 1, &assign),
                Parts::<F> { vals: (0..l.nslots()).map(|i| F::from64(if i == 0 { 1.5 } else { 0.0 })).collect(), present: vec![false; l.ngroups()] },
            ];
            let args: Vec<D> = inputs.iter().map(|p| D::build(d, p)).collect();
            let vals: Vec<Val> = inputs.iter().map(|p| Val::exact(p.to_jet::<DD>(&l))).collect();
            let progs = self.progs;
            let tables = std::sync::Mutex::new(vec![None; progs.len()]);
            let lr = &l;
            par_for(progs.len(), self.stats, |i, st| {
                let p = &progs[i];
                let want = match p.run_ref(&vals, F::U, 0.05) {
                    Some(w) => w,
                    None => return,
                };
                st.evaluations += 1;
                st.transitions += p.steps.len() as u64;
                let got = match guarded(|| p.run_impl::<F, D>(&args).parts(d)) {
                    Ok(g) => g,
                    Err(m) => {
                        st.violation(Violation { sig: format!("route {} panic", lr.type_name), case: prog_json(lr, d, &inputs, &p.steps), what: format!("panicked: {m}") });
                        return;
                    }
                };
                st.state(hash64(&(lr.type_name.as_str(), &assign, i)));
                st.outcome(hash64(&got.bits()));
                let mut t = BTreeMap::new();
                for (k, s) in lr.slots.iter().enumerate() {
                    let mut key: Vec<u8> = (0..lr.ngen).filter(|g| s.monos[0] & (1 << g) != 0).map(|g| assign[g as usize]).collect();
                    key.sort();
                    let v = got.alpha(lr, k).to64();
                    let e = want.e.get(s.monos[0]).to_f64();
                    // several slots may expose the same partial (e.g. eps1 and eps2 both d/dx0):
                    // they must agree among themselves too; keep the first, compare the rest now
                    match t.get(&key) {
                        None => {
                            t.insert(key, (v, e));
                        }
                        Some(&(v0, e0)) => {
                            if !((v - v0).abs() <= 2.0 * (e + e0) + 4096.0 * F::TINY) {
                                st.violation(Violation {
                                    sig: format!("agree-within {} key{:?}", lr.type_name, key),
                                    case: prog_json(lr, d, &inputs, &p.steps),
                                    what: format!("{}: two parts of {} exposing d/d{:?} differ: {:e} vs {:e}", p.describe(), lr.type_name, key, v0, v),
                                });
                            }
                        }
                    }
                }
                tables.lock().unwrap()[i] = Some(t);
            });
            self.results.push(RouteResult { name: format!("{}{:?}", l.type_name, assign), u: F::U, tables: tables.into_inner().unwrap() });
        }
    }
}

fn routes(tier: Tier, r: &mut Routes) {
    use nalgebra::{Const, Dyn};
    use num_dual::*;
    // first order
    r.with(&[&[0], &[1]]).visit::<f64, Dual64>(Dims::NONE);
    r.with(&[&[0]]).visit::<f32, Dual32>(Dims::NONE);
    // second order
    r.with(&[&[0, 0], &[1, 1]]).visit::<f64, Dual2_64>(Dims::NONE);
    r.with(&[&[0, 0], &[0, 1], &[1, 0], &[1, 1]]).visit::<f64, HyperDual64>(Dims::NONE);
    r.with(&[&[0, 0], &[0, 1], &[1, 1]]).visit::<f64, Dual<Dual64, f64>>(Dims::NONE);
    r.with(&[&[0, 0], &[1, 1]]).visit::<f64, Dual2Vec<f64, f64, Const<1>>>(Dims::n(1));
    r.with(&[&[0, 0], &[0, 1], &[1, 0]]).visit::<f64, HyperDualVec<f64, f64, Const<1>, Const<1>>>(Dims::mn(1, 1));
    r.with(&[&[0, 1, 0, 1], &[1, 0, 1, 0]]).visit::<f64, Dual2Vec<f64, f64, Const<2>>>(Dims::n(2));
    r.with(&[&[0, 1, 0, 1]]).visit::<f64, Dual2Vec<f64, f64, Dyn>>(Dims::n(2));
    r.with(&[&[0, 0]]).visit::<f32, Dual2_32>(Dims::NONE);
    r.with(&[&[0, 1]]).visit::<f32, HyperDual32>(Dims::NONE);
    // third order
    r.with(&[&[0, 0, 0], &[1, 1, 1]]).visit::<f64, Dual3_64>(Dims::NONE);
    r.with(&[&[0, 0, 0], &[0, 0, 1], &[0, 1, 1], &[1, 0, 0], &[1, 1, 1]]).visit::<f64, HyperHyperDual64>(Dims::NONE);
    r.with(&[&[0, 0, 0], &[0, 0, 1]]).visit::<f64, Dual<Dual<Dual64, f64>, f64>>(Dims::NONE);
    r.with(&[&[0, 0, 0], &[0, 0, 1], &[1, 1, 0]]).visit::<f64, Dual<Dual2_64, f64>>(Dims::NONE);
    r.with(&[&[0, 0, 0], &[1, 0, 0], &[0, 1, 1]]).visit::<f64, Dual2<Dual64, f64>>(Dims::NONE);
    r.with(&[&[0, 0, 0]]).visit::<f32, Dual3_32>(Dims::NONE);
    // vector types, one direction per variable, static and dynamic
    r.with(&[&[0, 1], &[1, 0]]).visit::<f64, DualVec<f64, f64, Const<2>>>(Dims::n(2));
    r.with(&[&[0, 1], &[1, 1]]).visit::<f64, DualVec<f64, f64, Dyn>>(Dims::n(2));
    r.with(&[&[0, 1, 1, 0]]).visit::<f64, HyperDualVec<f64, f64, Const<2>, Const<2>>>(Dims::mn(2, 2));
    r.with(&[&[0, 1, 1, 0]]).visit::<f64, HyperDualVec<f64, f64, Dyn, Dyn>>(Dims::mn(2, 2));
    // nested vector types: inner Dual64 (generator 0) inside second-order vector types
    r.with(&[&[0, 0, 1]]).visit::<f64, DualVec<Dual64, f64, Const<2>>>(Dims::n(2));
    r.with(&[&[0, 0, 1, 0, 1]]).visit::<f64, Dual2Vec<Dual64, f64, Const<2>>>(Dims::n(2));
    r.with(&[&[0, 0, 1, 1, 0]]).visit::<f64, HyperDualVec<Dual64, f64, Const<2>, Const<2>>>(Dims::mn(2, 2));
    // third order through a hyper-dual number over a dual number (inner generator 0, outer 1, 2)
    r.with(&[&[0, 0, 0], &[1, 0, 0], &[0, 0, 1], &[1, 1, 0]]).visit::<f64, HyperDual<Dual64, f64>>(Dims::NONE);
    // fourth order through three different nestings (the inner parts of the outer level's
    // derivative coefficients are only exercised by nested types)
    r.with(&[&[0, 0, 0, 0]]).visit::<f64, Dual2<Dual2_64, f64>>(Dims::NONE);
    r.with(&[&[0, 0, 0, 0], &[1, 0, 0, 0]]).visit::<f64, Dual3<Dual64, f64>>(Dims::NONE);
    r.with(&[&[0, 0, 0, 0], &[0, 0, 0, 1]]).visit::<f64, Dual<Dual3_64, f64>>(Dims::NONE);
    if tier == Tier::Thorough {
        r.with(&[&[0]]).visit::<f64, DualVec<f64, f64, Const<1>>>(Dims::n(1));
        r.with(&[&[0, 1, 0]]).visit::<f64, DualVec<f64, f64, Const<3>>>(Dims::n(3));
        r.with(&[&[1, 0, 0, 1]]).visit::<f64, DualVec<f64, f64, Const<4>>>(Dims::n(4));
        r.with(&[&[0, 1, 1, 0, 1]]).visit::<f64, DualVec<f64, f64, Const<5>>>(Dims::n(5));
        r.with(&[&[1, 0, 1, 0, 0, 1]]).visit::<f64, DualVec<f64, f64, Const<6>>>(Dims::n(6));
        for n in 1..=6usize {
            let a: Vec<u8> = (0..n).map(|i| ((i * 7 + n) % 2) as u8).collect();
            r.with(&[&a]).visit::<f64, DualVec<f64, f64, Dyn>>(Dims::n(n));
            let a2: Vec<u8> = a.iter().chain(a.iter()).copied().collect();
            if n <= 4 {
                r.with(&[&a2]).visit::<f64, Dual2Vec<f64, f64, Dyn>>(Dims::n(n));
            }
        }
        r.with(&[&[0, 1, 0, 0, 1, 0]]).visit::<f64, Dual2Vec<f64, f64, Const<3>>>(Dims::n(3));
        r.with(&[&[0, 1, 1, 0, 0, 1, 1, 0]]).visit::<f64, Dual2Vec<f64, f64, Const<4>>>(Dims::n(4));
        r.with(&[&[0, 1, 0, 1, 0]]).visit::<f64, HyperDualVec<f64, f64, Const<2>, Const<3>>>(Dims::mn(2, 3));
        r.with(&[&[1, 0, 0, 1, 0]]).visit::<f64, HyperDualVec<f64, f64, Dyn, Dyn>>(Dims::mn(3, 2));
        r.with(&[&[0, 1, 0, 1, 0, 1, 1]]).visit::<f64, HyperDualVec<f64, f64, Dyn, Dyn>>(Dims::mn(1, 6));
        r.with(&[&[0, 1, 0, 1, 0, 1, 1]]).visit::<f64, HyperDualVec<f64, f64, Const<6>, Const<1>>>(Dims::mn(6, 1));
        r.with(&[&[0, 1]]).visit::<f32, DualVec<f32, f32, Const<2>>>(Dims::n(2));
        r.with(&[&[0, 1, 0, 1]]).visit::<f32, Dual2Vec<f32, f32, Const<2>>>(Dims::n(2));
        r.with(&[&[0, 0, 1]]).visit::<f32, HyperHyperDual32>(Dims::NONE);
        r.with(&[&[0, 1, 0]]).visit::<f64, Dual<DualSVec64<2>, f64>>(Dims::n(2));
        r.with(&[&[0, 0, 1, 1]]).visit::<f64, HyperDual<HyperDual64, f64>>(Dims::NONE);
        r.with(&[&[0, 0, 0, 0]]).visit::<f64, HyperHyperDual<Dual64, f64>>(Dims::NONE);
    }
}

/// the public seeding accessors and constructors of the scalar types: which part each of them sets
/// (the routes above build their inputs from the field layout, users build them with these)
fn seeding_accessors(st: &mut Stats) {
    use num_dual::*;
    let mut check = |st: &mut Stats, what: &str, got: Vec<f64>, want: Vec<f64>| {
        st.evaluations += 1;
        st.transitions += 1;
        st.state(hash64(&("accessor", what)));
        st.nontrivial(hash64(&("accessor", what)));
        if got != want {
            st.violation(Violation { sig: format!("seeding {what}"), case: json!({"accessor": what}), what: format!("{what}: parts {got:?}, documented {want:?}") });
        }
    };
    let x = 2.5;
    let d = Dual64::from_re(x).derivative();
    check(st, "Dual64::from_re(x).derivative()", vec![d.re, d.eps], vec![x, 1.0]);
    let d = Dual64::new(x, 3.0);
    check(st, "Dual64::new(re, eps)", vec![d.re, d.eps], vec![x, 3.0]);
    let d = Dual2_64::from_re(x).derivative();
    check(st, "Dual2_64::from_re(x).derivative()", vec![d.re, d.v1, d.v2], vec![x, 1.0, 0.0]);
    let d = Dual2_64::new(x, 3.0, 4.0);
    check(st, "Dual2_64::new(re, v1, v2)", vec![d.re, d.v1, d.v2], vec![x, 3.0, 4.0]);
    let d = Dual3_64::from_re(x).derivative();
    check(st, "Dual3_64::from_re(x).derivative()", vec![d.re, d.v1, d.v2, d.v3], vec![x, 1.0, 0.0, 0.0]);
    let d = Dual3_64::new(x, 3.0, 4.0, 5.0);
    check(st, "Dual3_64::new(re, v1, v2, v3)", vec![d.re, d.v1, d.v2, d.v3], vec![x, 3.0, 4.0, 5.0]);
    let h = |d: HyperDual64| vec![d.re, d.eps1, d.eps2, d.eps1eps2];
    check(st, "HyperDual64 derivative1", h(HyperDual64::from_re(x).derivative1()), vec![x, 1.0, 0.0, 0.0]);
    check(st, "HyperDual64 derivative2", h(HyperDual64::from_re(x).derivative2()), vec![x, 0.0, 1.0, 0.0]);
    check(st, "HyperDual64 derivative1 derivative2", h(HyperDual64::from_re(x).derivative1().derivative2()), vec![x, 1.0, 1.0, 0.0]);
    check(st, "HyperDual64 derivative2 derivative1", h(HyperDual64::from_re(x).derivative2().derivative1()), vec![x, 1.0, 1.0, 0.0]);
    // an accessor sets its own part and leaves the others alone
    check(st, "HyperDual64 new(..).derivative1()", h(HyperDual64::new(x, 3.0, 4.0, 5.0).derivative1()), vec![x, 1.0, 4.0, 5.0]);
    check(st, "HyperDual64 new(..).derivative2()", h(HyperDual64::new(x, 3.0, 4.0, 5.0).derivative2()), vec![x, 3.0, 1.0, 5.0]);
    check(st, "HyperDual64::new", h(HyperDual64::new(x, 3.0, 4.0, 5.0)), vec![x, 3.0, 4.0, 5.0]);
    let hh = |d: HyperHyperDual64| vec![d.re, d.eps1, d.eps2, d.eps3, d.eps1eps2, d.eps1eps3, d.eps2eps3, d.eps1eps2eps3];
    check(st, "HyperHyperDual64 derivative1", hh(HyperHyperDual64::from_re(x).derivative1()), vec![x, 1.0, 0.0, 0.0, 0.0, 0.0, 0.0, 0.0]);
    check(st, "HyperHyperDual64 derivative2", hh(HyperHyperDual64::from_re(x).derivative2()), vec![x, 0.0, 1.0, 0.0, 0.0, 0.0, 0.0, 0.0]);
    check(st, "HyperHyperDual64 derivative3", hh(HyperHyperDual64::from_re(x).derivative3()), vec![x, 0.0, 0.0, 1.0, 0.0, 0.0, 0.0, 0.0]);
    check(st, "HyperHyperDual64 derivative1 derivative3", hh(HyperHyperDual64::from_re(x).derivative1().derivative3()), vec![x, 1.0, 0.0, 1.0, 0.0, 0.0, 0.0, 0.0]);
    check(st, "HyperHyperDual64 derivative3 derivative2 derivative1", hh(HyperHyperDual64::from_re(x).derivative3().derivative2().derivative1()), vec![x, 1.0, 1.0, 1.0, 0.0, 0.0, 0.0, 0.0]);
    check(st, "HyperHyperDual64 new(..).derivative2()", hh(HyperHyperDual64::new(x, 1.5, 2.0, 3.0, 4.0, 5.0, 6.0, 7.0).derivative2()), vec![x, 1.5, 1.0, 3.0, 4.0, 5.0, 6.0, 7.0]);
    check(st, "Dual2_64 new(..).derivative()", { let d = Dual2_64::new(x, 3.0, 4.0).derivative(); vec![d.re, d.v1, d.v2] }, vec![x, 1.0, 4.0]);
    check(st, "Dual3_64 new(..).derivative()", { let d = Dual3_64::new(x, 3.0, 4.0, 5.0).derivative(); vec![d.re, d.v1, d.v2, d.v3] }, vec![x, 1.0, 4.0, 5.0]);
    check(st, "HyperHyperDual64::new", hh(HyperHyperDual64::new(x, 1.0, 2.0, 3.0, 4.0, 5.0, 6.0, 7.0)), vec![x, 1.0, 2.0, 3.0, 4.0, 5.0, 6.0, 7.0]);
    // a function of two variables through the accessors: f = x y^2, x on direction 1, y on 2 (and 3)
    let (xv, yv) = (1.5, -0.75);
    let f = HyperDual64::from_re(xv).derivative1() * HyperDual64::from_re(yv).derivative2().powi(2);
    check(st, "HyperDual64 x y^2 via accessors", h(f), vec![xv * yv * yv, yv * yv, 2.0 * xv * yv, 2.0 * yv]);
    let f = HyperHyperDual64::from_re(xv).derivative1() * HyperHyperDual64::from_re(yv).derivative2().derivative3().powi(2);
    check(st, "HyperHyperDual64 x y^2 via accessors", hh(f), vec![xv * yv * yv, yv * yv, 2.0 * xv * yv, 2.0 * xv * yv, 2.0 * yv, 2.0 * yv, 2.0 * xv, 2.0]);
    // nested: the accessors of the outer and of the inner level
    let n = Dual::<Dual64, f64>::from_re(Dual64::from_re(x).derivative()).derivative();
    check(st, "Dual<Dual64> derivative on both levels", vec![n.re.re, n.re.eps, n.eps.re, n.eps.eps], vec![x, 1.0, 1.0, 0.0]);
}

fn main() {
    quiet_panics();
    let cli = cli();
    if cli.replay.is_some() {
        machinery("C04 violations are replayed with ./check C03 quick --replay <file> per route (the replay file holds type, inputs and program)");
    }
    let start = Instant::now();
    let mut stats = Stats::default();
    let tier = if cli.mode == Mode::Quick { Tier::Quick } else { Tier::Thorough };
    seeding_accessors(&mut stats);
    let progs = programs(2);
    let points: &[(f64, f64)] = if cli.mode == Mode::Quick { &[(0.75, -1.25), (0.0, 0.75)] } else { &[(0.75, -1.25), (2.5, 0.3125), (0.0, 0.75), (-1.25, 0.0)] };
    let mut n_routes = 0;
    let mut pairs_compared = 0u64;
    let mut bit_identical = 0u64;
    let mut keys_seen: BTreeMap<String, u64> = BTreeMap::new();
    for &pt in points {
        let mut r = Routes { progs: &progs, point: pt, results: vec![], stats: &mut stats, pending: vec![] };
        routes(tier, &mut r);
        let results = std::mem::take(&mut r.results);
        n_routes = results.len();
        // pairwise agreement
        for (pi, p) in progs.iter().enumerate() {
            let mut by_key: BTreeMap<Vec<u8>, Vec<(usize, f64, f64)>> = BTreeMap::new();
            for (ri, r) in results.iter().enumerate() {
                if let Some(t) = &r.tables[pi] {
                    for (k, (v, e)) in t {
                        by_key.entry(k.clone()).or_default().push((ri, *v, *e));
                    }
                }
            }
            for (k, list) in by_key {
                *keys_seen.entry(format!("{k:?}")).or_insert(0) += 1;
                if !k.is_empty() && list.len() >= 2 && list.iter().any(|x| x.1 != 0.0) {
                    stats.nontrivial(hash64(&(pi, &k, pt.0.to_bits())));
                }
                for a in 0..list.len() {
                    for b in (a + 1)..list.len() {
                        let (ra, va, ea) = list[a];
                        let (rb, vb, eb) = list[b];
                        pairs_compared += 1;
                        if va.to_bits() == vb.to_bits() {
                            bit_identical += 1;
                        }
                        let floor = 4096.0 * if results[ra].u > 1e-10 || results[rb].u > 1e-10 { 1.4e-45 } else { 5e-324 };
                        if !((va - vb).abs() <= 2.0 * (ea + eb) + floor) {
                            stats.violation(Violation {
                                sig: format!("agree {} vs {} key{:?}", results[ra].name, results[rb].name, k),
                                case: json!({"program": p.describe(), "point": [pt.0, pt.1], "key": k, "route_a": results[ra].name, "route_b": results[rb].name, "value_a": va, "value_b": vb, "bound_a": ea, "bound_b": eb,
                                    "steps": p.steps.iter().map(|s| json!({"op": op_to_json(s.op), "args": s.args})).collect::<Vec<_>>()}),
                                what: format!("{}: d/d{:?} = {:e} through {} but {:e} through {} (bounds {:e}, {:e})", p.describe(), k, va, results[ra].name, vb, results[rb].name, ea, eb),
                            });
                        }
                    }
                }
            }
        }
    }
    stats.count("route_pairs_compared", pairs_compared);
    stats.count("route_pairs_bit_identical", bit_identical);
    // NDERIV table
    let table = nderiv_table::nderiv_table();
    for (name, got, want) in &table {
        stats.evaluations += 1;
        if got != want {
            stats.violation(Violation { sig: format!("nderiv {name}"), case: json!({"type": name}), what: format!("NDERIV of {name} is {got}, the sum over its levels is {want}") });
        }
    }
    stats.count("nderiv_table_rows", table.len() as u64);
    stats.sample(|| json!({"program": progs[progs.len() / 2].describe(), "point": [points[0].0, points[0].1], "routes": n_routes}));
    let rep = Report {
        property: PROP,
        mode: cli.mode,
        seed: cli.seed,
        start,
        rule: "all straight-line programs of length <= 2 over the 25-operation family alphabet on registers {x0, x1, constant} x evaluation routes (type x assignment generator->variable: Dual3 / Dual<Dual<Dual>> / HyperHyperDual / Dual<Dual2> / Dual2<Dual>; Dual2 / Dual2Vec / HyperDual / HyperDualVec / Dual<Dual>; vector types with one direction per variable for n = 1..6 static and dynamic; f32 routes; nested vector types) ; every pair of routes exposing the same partial derivative (key = multiset of variables) is compared; plus NDERIV of all 8 + 64 + 512 nestings of depth <= 3, plus the seeding accessors and constructors of the scalar types (which part each one sets). Non-trivial = a (program, partial derivative of order >= 1) with a non-zero value reached through at least two routes.".into(),
        assumptions: vec![
            "differential oracle: |a - b| <= 2 (E_a + E_b) with E the propagated first-order rounding bounds (f32 routes with u_32); the reference values are not used for the verdict".into(),
        ],
        extra: json!({"routes": n_routes, "programs": progs.len(), "partials_compared": keys_seen, "points": points.len()}),
        exhaustive: true,
        caps: vec![],
    };
    std::process::exit(finish(rep, stats));
}
