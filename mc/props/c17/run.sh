#!/bin/sh
# C17 runner: build the Python extension from /repo's working tree, run the Python explorer under
# python3-vt to produce the trace file, then replay every trace on the Rust types.
tier="$1"; shift
export CARGO_NET_OFFLINE=true
mkdir -p /verif/target/py/site
cd /repo || exit 2
if ! PYO3_PYTHON=/opt/veriftools/pyvenv/bin/python cargo rustc --lib --features python --offline --crate-type cdylib --target-dir /verif/target/py -q 2>/verif/target/build-pyext.log; then
    echo "MACHINERY ERROR: build of the Python extension failed (see /verif/target/build-pyext.log)"; tail -5 /verif/target/build-pyext.log; exit 2
fi
cp /verif/target/py/debug/libnum_dual.so /verif/target/py/site/num_dual.abi3.so || exit 2
cd /verif || exit 2
if ! PYTHONPATH=/verif/target/py/site python3-vt /verif/py/driver.py "$tier" /verif/target/py/traces.jsonl >/verif/target/py/driver.log 2>&1; then
    # an exception inside the explorer itself (not inside an explored operation) is reported by the
    # replay binary as a missing meta record; show the log
    tail -5 /verif/target/py/driver.log
fi
exec /verif/target/release/c17 "$tier" "$@"
