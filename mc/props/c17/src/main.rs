//! C17 — Python bindings are a transparent view of the Rust operations.
//! Trace conformance: the Python driver (py/driver.py) explores the extension module built from
//! the working tree and records every trace; this binary replays each trace on the Rust types and
//! demands bit-for-bit identical results and identical renderings.

use explore::*;
use harness::*;
use nalgebra::{DVector, SVector};
use num_dual::*;
use serde_json::{json, Value};
use std::io::BufRead;
use std::time::Instant;
use subject::*;

const PROP: &str = "C17";

#[derive(Clone, Debug)]
enum PyOp {
    Plain(Op),
    /// f - x, implemented by the wrapper as -x + f
    RSubF(f64),
    /// f / x, implemented by the wrapper as recip(x) * f
    RDivF(f64),
}

fn pyop(v: &Value) -> PyOp {
    let name = v["name"].as_str().unwrap_or_else(|| machinery("trace: op without name"));
    let f = || v["f"].as_f64().unwrap();
    let i = || v["i"].as_i64().unwrap();
    match name {
        // the wrapper tries i32 first and a float next: a Python int beyond the i32 range is a
        // float exponent
        "PowInt" => match i32::try_from(i()) {
            Ok(n) => PyOp::Plain(Op::Powi(n)),
            Err(_) => PyOp::Plain(Op::Powf(i() as f64)),
        },
        "PowFloat" => PyOp::Plain(Op::Powf(f())),
        "PowDual" => PyOp::Plain(Op::Powd),
        "AddI" => PyOp::Plain(Op::AddF(i() as f64)),
        "MulI" => PyOp::Plain(Op::MulF(i() as f64)),
        "RAddF" => PyOp::Plain(Op::AddF(f())),
        "RMulF" => PyOp::Plain(Op::MulF(f())),
        "RSubF" => PyOp::RSubF(f()),
        "RDivF" => PyOp::RDivF(f()),
        _ => PyOp::Plain(op_from_json(v)),
    }
}

fn apply_py<D: DualNum<f64>>(op: &PyOp, a: &[D]) -> D {
    match op {
        PyOp::Plain(o) => apply_impl::<f64, D>(*o, a),
        PyOp::RSubF(f) => -a[0].clone() + *f,
        PyOp::RDivF(f) => a[0].recip() * *f,
    }
}

fn chain<D: DualNum<f64>>(mut x: D, ops: &[PyOp]) -> D {
    for op in ops {
        x = apply_py(op, &[x]);
    }
    x
}

/// the integrand of py/driver.py, operation for operation
fn integrand<D: DualNum<f64>>(xs: &[D], ops: &[PyOp]) -> D {
    let mut acc = chain(xs[0].clone(), ops);
    for i in 1..xs.len() {
        acc = acc + chain(xs[i].clone(), ops) * xs[i - 1].clone();
    }
    acc
}

/// `integrand_prod3` of py/driver.py, operation for operation
fn integrand_prod3<D: DualNum<f64>>(xs: &[D]) -> D {
    let t = xs[1].clone() * xs[2].clone() + xs[0].clone();
    let mut acc = (xs[0].clone() * xs[1].clone()) * (t.clone() * t);
    for i in 3..xs.len() {
        acc = acc * xs[i].clone() + xs[i - 1].clone();
    }
    acc
}

fn bits_of(v: &Value) -> Vec<f64> {
    v.as_array().unwrap().iter().map(|b| f64::from_bits(u64::from_str_radix(b.as_str().unwrap(), 16).unwrap())).collect()
}

fn same_bits(a: f64, b: f64) -> bool {
    a.to_bits() == b.to_bits() || (a.is_nan() && b.is_nan())
}

/// flatten a nested JSON list of bit strings
fn flat_json(v: &Value, out: &mut Vec<f64>) {
    match v {
        Value::Array(a) => a.iter().for_each(|x| flat_json(x, out)),
        Value::String(s) => out.push(f64::from_bits(u64::from_str_radix(s, 16).unwrap())),
        _ => machinery("trace: unexpected value"),
    }
}

struct Ctx<'a> {
    st: &'a mut Stats,
}

impl<'a> Ctx<'a> {
    fn compare(&mut self, what: &str, sig: &str, got: &[f64], want: &[f64], trace: &Value) -> bool {
        self.st.evaluations += 1;
        self.st.transitions += 1;
        if got.len() != want.len() || got.iter().zip(want).any(|(a, b)| !same_bits(*a, *b)) {
            let i = got.iter().zip(want).position(|(a, b)| !same_bits(*a, *b));
            self.st.violation(Violation {
                sig: sig.to_string(),
                case: trace.clone(),
                what: format!("{what}: Python returned {:?} at position {:?} where Rust gives {:?} (lengths {} / {})", i.map(|i| want[i]), i, i.map(|i| got[i]), want.len(), got.len()),
            });
            return false;
        }
        true
    }
    fn scalar_class<D: Subject<f64> + std::fmt::Display>(&mut self, t: &Value) {
        let d = Dims::NONE;
        let cls = t["class"].as_str().unwrap();
        let key = hash64(&t.to_string());
        self.st.state(key);
        match t["kind"].as_str().unwrap() {
            "ctor" => {
                let args = bits_of(&t["args"]);
                let x = D::build(d, &Parts { vals: args.clone(), present: vec![] });
                let want = bits_of(&t["result"]);
                self.compare("constructor + getters", &format!("ctor {cls}"), &x.parts(d).vals, &want, t);
                if t["repr"].as_str() != Some(&x.to_string()) {
                    self.st.violation(Violation { sig: format!("repr {cls}"), case: t.clone(), what: format!("repr is {:?}, Rust renders {:?}", t["repr"], x.to_string()) });
                }
            }
            "prog" => {
                let inputs: Vec<D> = t["inputs"].as_array().unwrap().iter().map(|a| D::build(d, &Parts { vals: bits_of(a), present: vec![] })).collect();
                let mut regs = inputs;
                let mut names = Vec::new();
                for s in t["steps"].as_array().unwrap() {
                    let op = pyop(&s["op"]);
                    let args: Vec<D> = s["args"].as_array().unwrap().iter().map(|i| regs[i.as_u64().unwrap() as usize].clone()).collect();
                    names.push(s["op"]["name"].as_str().unwrap().to_string());
                    regs.push(apply_py(&op, &args));
                }
                let r = regs.last().unwrap();
                let got = r.parts(d).vals;
                let want = bits_of(&t["result"]);
                self.st.outcome(hash64(&got.iter().map(|v| v.to_bits()).collect::<Vec<_>>()));
                self.st.nontrivial(key);
                if self.compare("program", &format!("prog {cls} {}", names.join(">")), &got, &want, t) && t["repr"].as_str() != Some(&r.to_string()) {
                    self.st.violation(Violation { sig: format!("repr {cls}"), case: t.clone(), what: format!("repr is {:?}, Rust renders {:?}", t["repr"], r.to_string()) });
                }
            }
            "from_re" => {
                // from_re(inner): all derivative parts zero
                let arg = bits_of(&t["arg"]);
                let n = D::layout(d).nslots();
                let mut vals = vec![0.0; n];
                vals[..arg.len()].copy_from_slice(&arg);
                let want = bits_of(&t["result"]);
                self.compare("from_re", &format!("from_re {cls}"), &vals, &want, t);
            }
            "error" => {
                self.st.violation(Violation { sig: format!("python-exception {cls}"), case: t.clone(), what: format!("Python raised {:?}", t["error"]) });
            }
            k => machinery(&format!("trace kind {k}")),
        }
    }
}

macro_rules! static_n {
    ($n:expr, $body:ident, $($k:literal),*) => {
        match $n { $($k => $body!($k),)* _ => None }
    };
}

fn driver(ctx: &mut Ctx, t: &Value) {
    let name = t["name"].as_str().unwrap();
    let ops: Vec<PyOp> = t["chain"].as_array().unwrap().iter().map(pyop).collect();
    let x = bits_of(&t["x"]);
    let mut want = Vec::new();
    flat_json(&t["result"], &mut want);
    let key = hash64(&t.to_string());
    ctx.st.state(key);
    ctx.st.nontrivial(key);
    let mut got: Vec<f64> = Vec::new();
    let n = x.len();
    let mut expect_class: Option<&str> = None;
    match name {
        "first_derivative" => {
            let (f, d1) = first_derivative(|t: Dual64| chain(t, &ops), x[0]);
            got = vec![f, d1];
        }
        "second_derivative" => {
            let (f, d1, d2) = second_derivative(|t: Dual2_64| chain(t, &ops), x[0]);
            got = vec![f, d1, d2];
        }
        "third_derivative" => {
            let (f, d1, d2, d3) = third_derivative(|t: Dual3_64| chain(t, &ops), x[0]);
            got = vec![f, d1, d2, d3];
        }
        "gradient" => {
            macro_rules! g {
                ($k:literal) => {{
                    let (f, g) = gradient(|v: SVector<DualSVec64<$k>, $k>| integrand(v.as_slice(), &ops), SVector::<f64, $k>::from_column_slice(&x));
                    let mut o = vec![f];
                    o.extend(g.iter());
                    Some(o)
                }};
            }
            got = match static_n!(n, g, 1, 2, 3, 4, 5, 6, 7, 8, 9, 10) {
                Some(o) => {
                    expect_class = Some("DualSVec64");
                    o
                }
                None => {
                    expect_class = Some("Dual64Dyn");
                    let (f, g) = gradient(|v: DVector<DualDVec64>| integrand(v.as_slice(), &ops), DVector::from_column_slice(&x));
                    let mut o = vec![f];
                    o.extend(g.iter());
                    o
                }
            };
            // numbers without derivative information built inside the callable: absent parts read as None
            if let Some(cg) = t.get("const_getters") {
                let c = DualSVec64::<2>::from_re(2.5);
                let c2 = c.clone() * 3.0 + 1.0;
                let row = |x: &DualSVec64<2>| {
                    let p = <DualSVec64<2> as Subject<f64>>::parts(x, Dims::n(2));
                    json!([format!("{:016x}", p.vals[0].to_bits()), if p.present[0] { json!(p.vals[1..].iter().map(|v| format!("{:016x}", v.to_bits())).collect::<Vec<_>>()) } else { Value::Null }, "n/a"])
                };
                let want = json!([row(&c), row(&c2)]);
                ctx.st.evaluations += 1;
                if !getters_agree(cg, &want) {
                    ctx.st.violation(Violation { sig: format!("driver gradient constant getters n={n}"), case: t.clone(), what: format!("getters of from_re(2.5) and from_re(2.5) * 3 + 1 inside the callable: {cg}, the Rust numbers have {want}") });
                }
            }
            // the seeds the Python callable saw: unit vectors
            let mut seeds = Vec::new();
            flat_json(&t["seeds"], &mut seeds);
            let unit: Vec<f64> = (0..n * n).map(|k| if k / n == k % n { 1.0 } else { 0.0 }).collect();
            ctx.compare("seeds seen by the callable", &format!("driver gradient seeds n={n}"), &unit, &seeds, t);
        }
        "hessian" => {
            let prod3 = t["variant"].as_str() == Some("prod3");
            if let Some(cg) = t.get("const_getters") {
                let c = Dual2SVec64::<2>::from_re(2.5);
                let c2 = c.clone() * 3.0 + 1.0;
                let row = |x: &Dual2SVec64<2>| {
                    let p = <Dual2SVec64<2> as Subject<f64>>::parts(x, Dims::n(2));
                    json!([format!("{:016x}", p.vals[0].to_bits()), if p.present[0] { json!("present") } else { Value::Null }, if p.present[1] { json!("present") } else { Value::Null }])
                };
                let want = json!([row(&c), row(&c2)]);
                ctx.st.evaluations += 1;
                if !getters_agree(cg, &want) {
                    ctx.st.violation(Violation { sig: format!("driver hessian constant getters n={n}"), case: t.clone(), what: format!("getters of from_re(2.5) and from_re(2.5) * 3 + 1 inside the callable: {cg}, the Rust numbers have {want}") });
                }
            }
            macro_rules! h {
                ($k:literal) => {{
                    let (f, g, h) = hessian(|v: SVector<Dual2SVec64<$k>, $k>| if prod3 { integrand_prod3(v.as_slice()) } else { integrand(v.as_slice(), &ops) }, SVector::<f64, $k>::from_column_slice(&x));
                    if prod3 && (0..$k).any(|r| (0..$k).any(|c| h[(r, c)].to_bits() != h[(c, r)].to_bits())) {
                        ctx.st.count("hessians_symmetric_only_up_to_rounding", 1);
                    }
                    let mut o = vec![f];
                    o.extend(g.iter());
                    for r in 0..$k {
                        for c in 0..$k {
                            o.push(h[(r, c)]);
                        }
                    }
                    Some(o)
                }};
            }
            got = match static_n!(n, h, 1, 2, 3, 4, 5, 6, 7, 8, 9, 10) {
                Some(o) => {
                    expect_class = Some("Dual2Vec64");
                    o
                }
                None => {
                    expect_class = Some("Dual2_64Dyn");
                    let (f, g, h) = hessian(|v: DVector<Dual2DVec64>| if prod3 { integrand_prod3(v.as_slice()) } else { integrand(v.as_slice(), &ops) }, DVector::from_column_slice(&x));
                    let mut o = vec![f];
                    o.extend(g.iter());
                    for r in 0..n {
                        for c in 0..n {
                            o.push(h[(r, c)]);
                        }
                    }
                    o
                }
            };
        }
        "jacobian" => {
            let m = t["m"].as_u64().unwrap() as usize;
            macro_rules! j {
                ($k:literal) => {{
                    let (f, jac) = jacobian(
                        |v: SVector<DualSVec64<$k>, $k>| DVector::from_fn(m, |r, _| chain(v[r % $k].clone(), &ops) * v[(r + 1) % $k].clone() + r as f64),
                        SVector::<f64, $k>::from_column_slice(&x),
                    );
                    let mut o: Vec<f64> = f.iter().copied().collect();
                    for r in 0..m {
                        for c in 0..$k {
                            o.push(jac[(r, c)]);
                        }
                    }
                    Some(o)
                }};
            }
            got = static_n!(n, j, 1, 2, 3, 4, 5, 6, 7, 8, 9, 10).unwrap_or_default();
        }
        "partial_hessian" => {
            let y = bits_of(&t["y"]);
            let (m, n2) = (x.len(), y.len());
            let getters: std::cell::RefCell<Option<Value>> = std::cell::RefCell::new(None);
            macro_rules! ph {
                ($m:literal, $n:literal) => {{
                    let (f, fx, fy, fxy) = partial_hessian(
                        |a: SVector<HyperDualSVec64<$m, $n>, $m>, b: SVector<HyperDualSVec64<$m, $n>, $n>| {
                            let all: Vec<_> = a.iter().chain(b.iter()).cloned().collect();
                            let res = integrand(&all, &ops);
                            // what the part getters of the Python class return for the same probes
                            let probes = [a[0].clone(), b[$n - 1].clone(), a[0].clone() * a[$m - 1].clone(), b[0].clone() * 2.0, res.clone()];
                            let hx = |v: f64| Value::String(format!("{:016x}", v.to_bits()));
                            let txt: Vec<Value> = probes
                                .iter()
                                .map(|p| {
                                    let e1 = p.eps1.clone();
                                    let e2 = p.eps2.clone();
                                    let e12 = p.eps1eps2.clone();
                                    let has = |present: bool, v: Value| if present { v } else { Value::Null };
                                    let none1 = e1 == num_dual::Derivative::none();
                                    let none2 = e2 == num_dual::Derivative::none();
                                    let none12 = e12 == num_dual::Derivative::none();
                                    let m1 = e1.unwrap_generic(nalgebra::Const::<$m>, nalgebra::Const::<1>);
                                    let m2 = e2.unwrap_generic(nalgebra::Const::<1>, nalgebra::Const::<$n>);
                                    let m12 = e12.unwrap_generic(nalgebra::Const::<$m>, nalgebra::Const::<$n>);
                                    json!([
                                        hx(p.re),
                                        [has(!none1, Value::Array((0..$m).map(|i| hx(m1[i])).collect())), has(!none2, Value::Array((0..$n).map(|j| hx(m2[j])).collect()))],
                                        has(!none12, Value::Array((0..$n).map(|j| Value::Array((0..$m).map(|i| hx(m12[(i, j)])).collect())).collect())),
                                    ])
                                })
                                .collect();
                            getters.borrow_mut().get_or_insert(Value::Array(txt));
                            res
                        },
                        SVector::<f64, $m>::from_column_slice(&x),
                        SVector::<f64, $n>::from_column_slice(&y),
                    );
                    let mut o = vec![f];
                    o.extend(fx.iter());
                    o.extend(fy.iter());
                    for r in 0..$m {
                        for c in 0..$n {
                            o.push(fxy[(r, c)]);
                        }
                    }
                    Some(o)
                }};
            }
            macro_rules! ph_row {
                ($m:literal) => {
                    match n2 {
                        1 => ph!($m, 1),
                        2 => ph!($m, 2),
                        3 => ph!($m, 3),
                        4 => ph!($m, 4),
                        5 => ph!($m, 5),
                        _ => None,
                    }
                };
            }
            let st = match m {
                1 => ph_row!(1),
                2 => ph_row!(2),
                3 => ph_row!(3),
                4 => ph_row!(4),
                5 => ph_row!(5),
                _ => None,
            };
            got = match st {
                Some(o) => {
                    expect_class = Some("HyperDualVec64");
                    // the part getters seen inside the callable (fixed-size classes only)
                    if let (Some(want), Some(pyg)) = (getters.borrow().as_ref(), t.get("getters")) {
                        if !pyg.is_null() && pyg != want {
                            ctx.st.violation(Violation {
                                sig: format!("driver partial_hessian getters m={m} n={n2}"),
                                case: t.clone(),
                                what: format!("the part getters of the elements handed to the callable return {pyg}, the Rust parts are {want}"),
                            });
                        }
                    }
                    o
                }
                None => {
                    expect_class = Some("HyperDual64Dyn");
                    let (f, fx, fy, fxy) = partial_hessian(
                        |a: DVector<HyperDualDVec64>, b: DVector<HyperDualDVec64>| {
                            let all: Vec<_> = a.iter().chain(b.iter()).cloned().collect();
                            integrand(&all, &ops)
                        },
                        DVector::from_column_slice(&x),
                        DVector::from_column_slice(&y),
                    );
                    let mut o = vec![f];
                    o.extend(fx.iter());
                    o.extend(fy.iter());
                    for r in 0..m {
                        for c in 0..n2 {
                            o.push(fxy[(r, c)]);
                        }
                    }
                    o
                }
            };
        }
        "second_partial_derivative" => {
            let r = second_partial_derivative(|a: HyperDual64, b: HyperDual64| integrand(&[a, b], &ops), x[0], x[1]);
            got = vec![r.0, r.1, r.2, r.3];
        }
        "third_partial_derivative" => {
            let r = third_partial_derivative(|a: HyperHyperDual64, b: HyperHyperDual64, c: HyperHyperDual64| integrand(&[a, b, c], &ops), x[0], x[1], x[2]);
            got = vec![r.0, r.1, r.2, r.3, r.4, r.5, r.6, r.7];
        }
        "third_partial_derivative_vec" => {
            let ijk: Vec<usize> = t["ijk"].as_array().unwrap().iter().map(|v| v.as_u64().unwrap() as usize).collect();
            let r = third_partial_derivative_vec(|v: &[HyperHyperDual64]| integrand(v, &ops), &x, ijk[0], ijk[1], ijk[2]);
            got = vec![r.0, r.1, r.2, r.3, r.4, r.5, r.6, r.7];
        }
        other => machinery(&format!("unknown driver {other}")),
    }
    ctx.st.outcome(hash64(&got.iter().map(|v| v.to_bits()).collect::<Vec<_>>()));
    let shape = if name == "partial_hessian" { format!("m={} n={}", x.len(), t["y"].as_array().map(|y| y.len()).unwrap_or(0)) } else { format!("{}{}", t["m"].as_u64().map(|m| format!("m={m} ")).unwrap_or_default(), format!("n={n}")) };
    ctx.compare(&format!("driver {name}"), &format!("driver {name} {shape}"), &got, &want, t);
    if let (Some(e), Some(c)) = (expect_class, t["element_class"].as_str()) {
        if e != c {
            ctx.st.violation(Violation { sig: format!("driver {name} dispatch {shape}"), case: t.clone(), what: format!("the callable received {c} objects, expected {e} for this length") });
        }
    }
}

/// getter rows agree; "n/a" on the Python side = the class has no such getter (not compared)
fn getters_agree(py: &Value, rust: &Value) -> bool {
    match (py.as_array(), rust.as_array()) {
        (Some(a), Some(b)) => a.len() == b.len() && a.iter().zip(b).all(|(x, y)| x.as_str() == Some("n/a") || getters_agree(x, y) || x == y),
        _ => py == rust,
    }
}

/// the reflected operators against the lifted Rust expression (depth 1)
fn reflected<D: Subject<f64>>(st: &mut Stats, name: &str) {
    let d = Dims::NONE;
    let l = D::layout(d);
    for re in [0.625, -1.375, 2.5] {
        for p in few_assignments::<f64>(&l, re, 2, 0) {
            let x = D::build(d, &p);
            for f in [0.75, -4.0, 2.5] {
                st.evaluations += 2;
                let a = apply_py(&PyOp::RSubF(f), &[x.clone()]).parts(d);
                let b = (D::from(f) - x.clone()).parts(d);
                if (0..l.nslots()).any(|i| !(a.vals[i] == b.vals[i])) {
                    st.violation(Violation { sig: format!("reflected rsub {name}"), case: json!({"class": name, "f": f, "x": parts_to_json(&p)}), what: "f - x differs from the lifted expression".into() });
                }
                let a = apply_py(&PyOp::RDivF(f), &[x.clone()]).parts(d);
                let b = (D::from(f) / x.clone()).parts(d);
                if (0..l.nslots()).any(|i| !((a.vals[i] - b.vals[i]).abs() <= 16.0 * 1.2e-16 * a.vals[i].abs().max(b.vals[i].abs()))) {
                    st.violation(Violation { sig: format!("reflected rtruediv {name}"), case: json!({"class": name, "f": f, "x": parts_to_json(&p)}), what: "f / x differs from the lifted expression by more than 16 u".into() });
                }
            }
        }
    }
}

fn main() {
    quiet_panics();
    let cli = cli();
    let start = Instant::now();
    let mut stats = Stats::default();
    let path = std::env::var("C17_TRACES").unwrap_or_else(|_| "/verif/target/py/traces.jsonl".into());
    let file = std::fs::File::open(&path).unwrap_or_else(|e| machinery(&format!("cannot open the trace file {path}: {e} (run through ./check C17, which builds the extension and runs py/driver.py)")));
    let mut n_traces = 0u64;
    let mut kinds: std::collections::BTreeMap<String, u64> = Default::default();
    let mut meta = Value::Null;
    {
        let mut ctx = Ctx { st: &mut stats };
        for line in std::io::BufReader::new(file).lines() {
            let line = line.unwrap_or_else(|e| machinery(&format!("trace file: {e}")));
            let t: Value = serde_json::from_str(&line).unwrap_or_else(|e| machinery(&format!("bad trace line: {e}")));
            n_traces += 1;
            let kind = t["kind"].as_str().unwrap().to_string();
            *kinds.entry(kind.clone()).or_insert(0) += 1;
            let r = guarded(|| match kind.as_str() {
                "meta" => meta = t.clone(),
                "driver" => driver(&mut ctx, &t),
                // an exception (or a Rust panic surfacing as PanicException) inside a driver call
                "error" if t["class"].as_str().unwrap_or("").starts_with("driver ") => {
                    ctx.st.evaluations += 1;
                    ctx.st.violation(Violation { sig: format!("python-exception {}", t["class"].as_str().unwrap()), case: t.clone(), what: format!("Python raised {:?}", t["error"]) });
                }
                _ => match t["class"].as_str().unwrap() {
                    "Dual64" => ctx.scalar_class::<Dual64>(&t),
                    "Dual2_64" => ctx.scalar_class::<Dual2_64>(&t),
                    "Dual3_64" => ctx.scalar_class::<Dual3_64>(&t),
                    "HyperDual64" => ctx.scalar_class::<HyperDual64>(&t),
                    "HyperHyperDual64" => ctx.scalar_class::<HyperHyperDual64>(&t),
                    "HyperDualDual64" => ctx.scalar_class::<HyperDual<Dual64, f64>>(&t),
                    "Dual2Dual64" => ctx.scalar_class::<Dual2<Dual64, f64>>(&t),
                    "Dual3Dual64" => ctx.scalar_class::<Dual3<Dual64, f64>>(&t),
                    c => machinery(&format!("unknown class {c}")),
                },
            });
            if let Err(m) = r {
                ctx.st.violation(Violation { sig: format!("rust-panic {kind}"), case: t.clone(), what: format!("the Rust replay panicked: {m}") });
            }
            if n_traces % 9973 == 1 {
                ctx.st.sample(|| t.clone());
            }
        }
    }
    if meta.is_null() {
        machinery("trace file has no meta record (the Python driver did not finish)");
    }
    let expected_exports = [
        "Dual2Dual64", "Dual2_64", "Dual3Dual64", "Dual3_64", "Dual64", "HyperDual64", "HyperDualDual64", "HyperHyperDual64", "first_derivative", "gradient", "hessian", "jacobian",
        "partial_hessian", "second_derivative", "second_partial_derivative", "third_derivative", "third_partial_derivative", "third_partial_derivative_vec",
    ];
    let got_exports: Vec<String> = meta["exported"].as_array().unwrap().iter().map(|v| v.as_str().unwrap().to_string()).collect();
    if got_exports != expected_exports {
        stats.violation(Violation { sig: "module exports".into(), case: meta.clone(), what: format!("the module exports {got_exports:?}") });
    }
    reflected::<Dual64>(&mut stats, "Dual64");
    reflected::<Dual2_64>(&mut stats, "Dual2_64");
    reflected::<Dual3_64>(&mut stats, "Dual3_64");
    reflected::<HyperDual64>(&mut stats, "HyperDual64");
    reflected::<HyperHyperDual64>(&mut stats, "HyperHyperDual64");
    reflected::<HyperDual<Dual64, f64>>(&mut stats, "HyperDualDual64");
    if cli.replay.is_some() {
        // a replay file holds the violating trace; it was re-executed above if it is still in the
        // freshly generated trace file (the exploration is deterministic)
        let v = read_replay(cli.replay.as_ref().unwrap());
        let sig = v["sig"].as_str().unwrap_or("");
        if stats.violations.contains_key(sig) {
            println!("VIOLATION property={PROP} replay={}", cli.replay.unwrap());
            std::process::exit(1);
        }
        println!("replay: property holds on this case");
        std::process::exit(0);
    }
    let rep = Report {
        property: PROP,
        mode: cli.mode,
        seed: cli.seed,
        start,
        rule: "Python side (py/driver.py under python3-vt, extension built from the working tree): for each of the 8 registered classes, constructors + getters, from_re, and BFS over programs of depth <= 2 on registers {two constructed values, earlier result} over 53 unary operations (25 named methods, log_base, sin_cos, powi, powf, ** with int (also beyond the i32 range) and float, unary -, + - * / with a float or int on the right and on the left) and 6 binary operations (+ - * /, powd, ** with a dual exponent), numpy float arrays on either side and numpy object arrays of dual numbers on either side; drivers first/second/third_derivative, gradient and hessian for every length 1..12 (fixed-size classes to 10, dynamic beyond), jacobian n <= 10 x m in {1,2,3,n,n+1}, partial_hessian all (m,n) <= 6, second/third_partial_derivative, third_partial_derivative_vec all triples n <= 3, with 6 integrand chains. Rust side: every trace is replayed on the Rust types; results must be bit-for-bit identical, repr must equal Display, the element class seen by the callable must match the dispatch rule. Non-trivial = program and driver traces.".into(),
        assumptions: vec![
            "the extension is built in the dev profile, this binary in the release profile: Rust does not contract or re-associate float operations, both call the same libm".into(),
            "reflected - and / are replayed as the wrapper defines them (-x + f, recip(x) * f) and separately compared with the lifted Rust expression (equal / within 16 u)".into(),
        ],
        extra: json!({"traces_generated": n_traces, "trace_kinds": kinds, "module": meta}),
        exhaustive: true,
        caps: vec![],
    };
    std::process::exit(finish(rep, stats));
}
