//! Dumps Taylor coefficients of the reference model for the audit against mpmath.
//! usage: refaudit <quick|thorough>
use refmodel::{taylor_dd, Func, DD};

fn main() {
    let tier = std::env::args().nth(1).unwrap_or_else(|| "quick".into());
    let thorough = tier == "thorough";
    let real: Vec<f64> = vec![-9.25, -2.5, -1.0, -0.625, -0.125, 0.125, 0.3125, 0.75, 1.0, 1.25, 2.0, 3.75, 9.25];
    let pos: Vec<f64> = vec![0.0625, 0.3125, 0.875, 1.0, 1.25, 2.5, 17.0, 1000.0];
    let unit: Vec<f64> = vec![-0.875, -0.5, -0.125, 0.25, 0.5, 0.875];
    let gt1: Vec<f64> = vec![1.125, 1.5, 3.0, 10.0];
    let nz: Vec<f64> = real.clone();
    let k = 6usize;
    let mut jobs: Vec<(Func, &'static str, f64, Vec<f64>)> = vec![
        (Func::Recip, "recip", 0.0, nz.clone()),
        (Func::Sqrt, "sqrt", 0.0, pos.clone()),
        (Func::Cbrt, "cbrt", 0.0, nz.clone()),
        (Func::Exp, "exp", 0.0, real.clone()),
        (Func::Exp2, "exp2", 0.0, real.clone()),
        (Func::ExpM1, "expm1", 0.0, real.clone()),
        (Func::Ln, "ln", 0.0, pos.clone()),
        (Func::Log(2.5), "log", 2.5, pos.clone()),
        (Func::Log(0.5), "log", 0.5, pos.clone()),
        (Func::Log2, "log2", 0.0, pos.clone()),
        (Func::Log10, "log10", 0.0, pos.clone()),
        (Func::Ln1p, "ln1p", 0.0, vec![-0.875, -0.5, -0.125, 0.0, 0.125, 0.75, 2.0, 9.25]),
        (Func::Sin, "sin", 0.0, real.clone()),
        (Func::Cos, "cos", 0.0, real.clone()),
        (Func::Tan, "tan", 0.0, real.clone()),
        (Func::Asin, "asin", 0.0, unit.clone()),
        (Func::Acos, "acos", 0.0, unit.clone()),
        (Func::Atan, "atan", 0.0, real.clone()),
        (Func::Sinh, "sinh", 0.0, real.clone()),
        (Func::Cosh, "cosh", 0.0, real.clone()),
        (Func::Tanh, "tanh", 0.0, real.clone()),
        (Func::Asinh, "asinh", 0.0, real.clone()),
        (Func::Acosh, "acosh", 0.0, gt1.clone()),
        (Func::Atanh, "atanh", 0.0, unit.clone()),
        (Func::Powi(-3), "powi", -3.0, nz.clone()),
        (Func::Powi(5), "powi", 5.0, nz.clone()),
        (Func::Powi(7), "powi", 7.0, vec![0.0]),
        (Func::Powf(2.5), "powf", 2.5, pos.clone()),
        (Func::Powf(-1.5), "powf", -1.5, pos.clone()),
        (Func::Powf(0.5), "powf", 0.5, pos.clone()),
    ];
    // Bessel lattices
    let step = if thorough { 1 } else { 37 };
    let mut lat: Vec<f64> = (-3840i32..=3840).step_by(step).map(|i| i as f64 / 64.0).collect();
    lat.extend_from_slice(&[0.0, 5e-324, -5e-324, 1e-300, 1e-8, -1e-8, 1e-5, -1e-5, 5.0, -5.0, 2.0, -2.0, 1.9999999, 2.0000001]);
    for n in 0..3 {
        jobs.push((Func::BesselJ(n), "besselj", n as f64, lat.clone()));
    }
    let mut slat: Vec<f64> = (-3200i32..=3200).step_by(step).map(|i| i as f64 / 64.0).collect();
    slat.extend_from_slice(&[0.0, 5e-324, -1e-300, 1e-16, -2.220446049250313e-16, 1e-8, -1e-5, 1e-3, 1.0, -1.0, 0.99999, 1.00001]);
    for n in 0..3 {
        jobs.push((Func::SphJ(n), "sphj", n as f64, slat.clone()));
    }
    for (f, name, par, pts) in jobs {
        for x in pts {
            let c = taylor_dd(f, DD::f(x), k);
            print!("{} {:e} {:e}", name, par, x);
            for ck in c {
                print!(" {:e} {:e}", ck.hi, ck.lo);
            }
            println!();
        }
    }
}
