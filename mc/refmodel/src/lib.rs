//! Reference model for num-dual: one commutative algebra of square-zero generators truncated
//! to a down-closed monomial family, over an exact (dyadic) or double-double scalar.
//! This crate has NO dependency on num-dual.

pub mod bits;
pub mod dd;
pub mod exact;
pub mod funcs;
pub mod jet;
pub mod series;

pub use bits::Bits;
pub use dd::DD;
pub use exact::Exact;
pub use funcs::{taylor_dd, taylor_exact, Func};
pub use jet::{Jet, Shape};

use std::fmt::Debug;

pub trait Scalar: Clone + Debug + PartialEq {
    fn zero() -> Self;
    fn one() -> Self;
    fn from_f64(x: f64) -> Self;
    fn add(&self, o: &Self) -> Self;
    fn sub(&self, o: &Self) -> Self;
    fn mul(&self, o: &Self) -> Self;
    fn div(&self, o: &Self) -> Self;
    fn neg(&self) -> Self;
    fn abs(&self) -> Self;
    fn is_zero(&self) -> bool;
    fn to_f64_approx(&self) -> f64;
}
