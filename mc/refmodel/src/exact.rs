//! Exact dyadic rationals m * 2^e with an i128 mantissa.  Overflow is a *machinery error*
//! (panic with the prefix `MACHINERY:`), never a verdict.

use crate::Scalar;

#[derive(Clone, Copy, Debug, PartialEq, Eq, Hash)]
pub struct Exact {
    m: i128,
    e: i32,
}

fn norm(mut m: i128, mut e: i32) -> Exact {
    if m == 0 {
        return Exact { m: 0, e: 0 };
    }
    let tz = m.trailing_zeros();
    m >>= tz;
    e += tz as i32;
    Exact { m, e }
}

fn ovf() -> ! {
    panic!("MACHINERY: exact dyadic arithmetic overflowed i128");
}

impl Exact {
    pub fn new(m: i128, e: i32) -> Self {
        norm(m, e)
    }

    /// exact conversion of a finite float
    pub fn from_float(x: f64) -> Option<Self> {
        if !x.is_finite() {
            return None;
        }
        if x == 0.0 {
            return Some(Exact { m: 0, e: 0 });
        }
        let bits = x.to_bits();
        let sign = if (bits >> 63) != 0 { -1i128 } else { 1 };
        let ex = ((bits >> 52) & 0x7ff) as i32;
        let frac = (bits & ((1u64 << 52) - 1)) as i128;
        let (m, e) = if ex == 0 {
            (frac, -1074)
        } else {
            (frac | (1i128 << 52), ex - 1075)
        };
        Some(norm(sign * m, e))
    }

    pub fn to_f64(&self) -> f64 {
        // only used for printing / approximate purposes
        (self.m as f64) * (2.0f64).powi(self.e)
    }

    pub fn mantissa_bits(&self) -> u32 {
        128 - self.m.unsigned_abs().leading_zeros()
    }

    pub fn is_pow2(&self) -> bool {
        self.m == 1 || self.m == -1
    }

    pub fn exponent(&self) -> i32 {
        self.e
    }

    pub fn signum(&self) -> i32 {
        self.m.signum() as i32
    }

    pub fn from_i64(n: i64) -> Self {
        norm(n as i128, 0)
    }

    pub fn powi(&self, n: u32) -> Self {
        let mut r = Exact::one();
        for _ in 0..n {
            r = r.mul(self);
        }
        r
    }

    /// equality with a float (signed zeros identified); false for non-finite floats
    pub fn eq_float(&self, x: f64) -> bool {
        match Exact::from_float(x) {
            Some(v) => v == *self,
            None => false,
        }
    }
}

impl std::fmt::Display for Exact {
    fn fmt(&self, f: &mut std::fmt::Formatter) -> std::fmt::Result {
        write!(f, "{}*2^{}", self.m, self.e)
    }
}

impl Scalar for Exact {
    fn zero() -> Self {
        Exact { m: 0, e: 0 }
    }
    fn one() -> Self {
        Exact { m: 1, e: 0 }
    }
    fn from_f64(x: f64) -> Self {
        Exact::from_float(x).unwrap_or_else(|| panic!("MACHINERY: non-finite value {x} given to the exact reference"))
    }
    fn add(&self, o: &Self) -> Self {
        if self.m == 0 {
            return *o;
        }
        if o.m == 0 {
            return *self;
        }
        let (a, b) = if self.e <= o.e { (self, o) } else { (o, self) };
        let sh = (b.e - a.e) as u32;
        if sh >= 120 || b.m.unsigned_abs().leading_zeros() <= sh + 1 {
            ovf();
        }
        let bm = b.m << sh;
        let s = a.m.checked_add(bm).unwrap_or_else(|| ovf());
        norm(s, a.e)
    }
    fn sub(&self, o: &Self) -> Self {
        self.add(&o.neg())
    }
    fn mul(&self, o: &Self) -> Self {
        let m = self.m.checked_mul(o.m).unwrap_or_else(|| ovf());
        norm(m, self.e + o.e)
    }
    fn div(&self, o: &Self) -> Self {
        if !o.is_pow2() {
            panic!("MACHINERY: exact division by {o}, which is not a power of two");
        }
        norm(self.m * o.m, self.e - o.e)
    }
    fn neg(&self) -> Self {
        Exact { m: -self.m, e: self.e }
    }
    fn abs(&self) -> Self {
        Exact { m: self.m.abs(), e: self.e }
    }
    fn is_zero(&self) -> bool {
        self.m == 0
    }
    fn to_f64_approx(&self) -> f64 {
        self.to_f64()
    }
}

#[cfg(test)]
mod tests {
    use super::*;
    #[test]
    fn basics() {
        let a = Exact::from_float(0.75).unwrap();
        let b = Exact::from_float(-1.25).unwrap();
        assert!(a.add(&b).eq_float(-0.5));
        assert!(a.mul(&b).eq_float(-0.9375));
        assert!(a.div(&Exact::from_float(-4.0).unwrap()).eq_float(-0.1875));
        assert!(Exact::from_float(5e-324).unwrap().eq_float(5e-324));
        assert!(Exact::zero().eq_float(-0.0));
        assert!(Exact::from_float(3.0).unwrap().powi(5).eq_float(243.0));
    }
}
