//! Taylor coefficients c_k = g^(k)(a0)/k!, k = 0..=K, of every interface function, generated from
//! the defining ODE in series arithmetic.  Only base values are transcendental evaluations.

use crate::dd::{self, DD};
use crate::exact::Exact;
use crate::series::Series;
use crate::Scalar;

#[derive(Clone, Copy, Debug, PartialEq)]
pub enum Func {
    Recip,
    Sqrt,
    Cbrt,
    Exp,
    Exp2,
    ExpM1,
    Ln,
    /// logarithm to the given base
    Log(f64),
    Log2,
    Log10,
    Ln1p,
    Sin,
    Cos,
    Tan,
    Asin,
    Acos,
    Atan,
    Sinh,
    Cosh,
    Tanh,
    Asinh,
    Acosh,
    Atanh,
    Powi(i64),
    /// real power; the exponent is carried as a double-double so that f32 exponents are exact
    Powf(f64),
    BesselJ(usize),
    SphJ(usize),
    /// identity (used for tests)
    Id,
}

/// Maclaurin-series route: given g(x) = sum_m a_m x^(2m+n) compute Taylor coefficients at a0
/// by term-wise differentiation: c_k = sum_m a_m binom(2m+n, k) a0^(2m+n-k)
fn maclaurin_shift(co: &[DD], n: usize, a0: DD, kmax: usize) -> Vec<DD> {
    let mut out = vec![DD::ZERO; kmax + 1];
    // powers of a0
    let maxp = 2 * (co.len() - 1) + n;
    let mut pw = Vec::with_capacity(maxp + 1);
    let mut p = DD::ONE;
    for _ in 0..=maxp {
        pw.push(p);
        p = p.mul_dd(a0);
    }
    for (m, a) in co.iter().enumerate() {
        let d = 2 * m + n;
        // binom(d, k) iteratively
        let mut b = DD::ONE;
        for k in 0..=kmax.min(d) {
            if k > 0 {
                b = b.mul_f((d - k + 1) as f64).div_dd(DD::f(k as f64));
            }
            out[k] = out[k].add_dd(a.mul_dd(b).mul_dd(pw[d - k]));
        }
    }
    out
}

pub fn taylor_dd(f: Func, a0: DD, kmax: usize) -> Vec<DD> {
    let n = kmax + 1;
    let x = Series::var(a0, n);
    let one = Series::constant(DD::ONE, n);
    let s = match f {
        Func::Id => x,
        Func::Recip => x.recip(),
        Func::Sqrt => x.pow(&DD::f(0.5), a0.sqrt()),
        Func::Cbrt => x.pow(&DD::ONE.div_dd(DD::f(3.0)), a0.cbrt()),
        Func::Exp => x.exp(a0.exp()),
        Func::Exp2 => x.scale(&dd::LN2).exp(a0.mul_dd(dd::LN2).exp()),
        Func::ExpM1 => {
            let mut e = x.exp(a0.exp());
            e.0[0] = a0.exp_m1();
            e
        }
        Func::Ln => x.deriv_over(&x).integ(a0.ln()),
        Func::Log(b) => {
            let lb = DD::f(b).ln();
            x.deriv_over(&x).integ(a0.ln()).scale(&DD::ONE.div_dd(lb))
        }
        Func::Log2 => x.deriv_over(&x).integ(a0.ln()).scale(&DD::ONE.div_dd(dd::LN2)),
        Func::Log10 => x.deriv_over(&x).integ(a0.ln()).scale(&DD::ONE.div_dd(dd::LN10)),
        Func::Ln1p => {
            let xp = x.add_const(&DD::ONE);
            x.deriv_over(&xp).integ(a0.ln_1p())
        }
        Func::Sin => {
            let (s0, c0) = a0.sin_cos();
            x.sin_cos(s0, c0).0
        }
        Func::Cos => {
            let (s0, c0) = a0.sin_cos();
            x.sin_cos(s0, c0).1
        }
        Func::Tan => {
            let (s0, c0) = a0.sin_cos();
            let (s, c) = x.sin_cos(s0, c0);
            s.div(&c)
        }
        Func::Asin => {
            // Y' = X'/sqrt(1 - X^2)
            let w = one.sub(&x.mul(&x));
            let r = w.pow(&DD::f(0.5), w.0[0].sqrt());
            x.deriv_over(&r).integ(a0.asin())
        }
        Func::Acos => {
            let w = one.sub(&x.mul(&x));
            let r = w.pow(&DD::f(0.5), w.0[0].sqrt());
            x.deriv_over(&r).neg().integ(a0.acos())
        }
        Func::Atan => {
            let w = one.add(&x.mul(&x));
            x.deriv_over(&w).integ(a0.atan())
        }
        Func::Sinh => x.sinh_cosh(a0.sinh(), a0.cosh()).0,
        Func::Cosh => x.sinh_cosh(a0.sinh(), a0.cosh()).1,
        Func::Tanh => {
            let (s, c) = x.sinh_cosh(a0.sinh(), a0.cosh());
            s.div(&c)
        }
        Func::Asinh => {
            let w = one.add(&x.mul(&x));
            let r = w.pow(&DD::f(0.5), w.0[0].sqrt());
            x.deriv_over(&r).integ(a0.asinh())
        }
        Func::Acosh => {
            let w = x.mul(&x).sub(&one);
            let r = w.pow(&DD::f(0.5), w.0[0].sqrt());
            x.deriv_over(&r).integ(a0.acosh())
        }
        Func::Atanh => {
            let w = one.sub(&x.mul(&x));
            x.deriv_over(&w).integ(a0.atanh())
        }
        Func::Powi(p) => {
            if p >= 0 {
                // polynomial: c_k = binom(p,k) a0^(p-k), exact structure also at zero and for
                // arguments whose powers underflow
                let mut s = Series::zero(n);
                let mut b = DD::ONE;
                for k in 0..n.min(p as usize + 1) {
                    if k > 0 {
                        b = b.mul_f((p as usize - k + 1) as f64).div_dd(DD::f(k as f64));
                    }
                    s.0[k] = b.mul_dd(a0.powi(p - k as i64));
                }
                s
            } else {
                x.pow(&DD::f(p as f64), a0.powi(p))
            }
        }
        Func::Powf(p) => {
            if a0.is_zero() {
                // x^p at zero: c_k = binom(p,k) 0^(p-k): zero for k < p, one for k = p, zero beyond
                // for a non-negative integer p and infinite beyond for any other p
                let mut s = Series::zero(n);
                let is_int = p >= 0.0 && p.fract() == 0.0;
                for k in 0..n {
                    let kf = k as f64;
                    s.0[k] = if kf < p {
                        DD::ZERO
                    } else if kf == p {
                        DD::ONE
                    } else if is_int {
                        DD::ZERO
                    } else {
                        DD::f(f64::INFINITY)
                    };
                }
                s
            } else {
                x.pow(&DD::f(p), a0.powf(DD::f(p)))
            }
        }
        Func::BesselJ(order) => {
            if a0.abs_dd().hi < 2.0 {
                return maclaurin_shift(&dd::bessel_maclaurin_coeffs(order, 40), order, a0, kmax);
            }
            // A' = -B, B' = A - B/X   with A = J0, B = J1, X = a0 + t
            let (j0, j1) = a0.bessel_j01();
            let mut a = vec![DD::ZERO; n + 1];
            let mut b = vec![DD::ZERO; n + 1];
            a[0] = j0;
            b[0] = j1;
            for k in 0..n {
                // (k+1) a_{k+1} = -b_k
                a[k + 1] = b[k].neg_dd().div_dd(DD::f((k + 1) as f64));
                // a0 (k+1) b_{k+1} + k b_k = a0 a_k + a_{k-1} - b_k
                let am1 = if k >= 1 { a[k - 1] } else { DD::ZERO };
                let rhs = a0.mul_dd(a[k]).add_dd(am1).sub_dd(b[k].mul_f((k + 1) as f64));
                b[k + 1] = rhs.div_dd(a0.mul_f((k + 1) as f64));
            }
            a.truncate(n);
            b.truncate(n);
            match order {
                0 => Series(a),
                1 => Series(b),
                2 => Series(b).scale(&DD::f(2.0)).div(&x).sub(&Series(a)),
                _ => panic!("MACHINERY: bessel order"),
            }
        }
        Func::SphJ(order) => {
            if a0.abs_dd().hi < 1.0 {
                return maclaurin_shift(&dd::sph_maclaurin_coeffs(order, 30), order, a0, kmax);
            }
            let (s0, c0) = a0.sin_cos();
            let (s, c) = x.sin_cos(s0, c0);
            match order {
                0 => s.div(&x),
                1 => s.sub(&x.mul(&c)).div(&x.mul(&x)),
                2 => {
                    let x2 = x.mul(&x);
                    let three = Series::constant(DD::f(3.0), n);
                    three.sub(&x2).mul(&s).sub(&x.mul(&c).scale(&DD::f(3.0))).div(&x2.mul(&x))
                }
                _ => panic!("MACHINERY: spherical bessel order"),
            }
        }
    };
    s.0
}

impl Series<DD> {
    /// X'/W as a series (one order shorter, padded) — helper for Y' = X'/W integrations
    fn deriv_over(&self, w: &Series<DD>) -> Series<DD> {
        self.deriv().div(w)
    }
}

/// exact Taylor coefficients for the rational functions (C02): recip and integer powers
pub fn taylor_exact(f: Func, a0: Exact, kmax: usize) -> Vec<Exact> {
    let n = kmax + 1;
    let x = Series::var(a0, n);
    match f {
        Func::Id => x.0,
        Func::Recip => x.recip().0,
        Func::Powi(p) => {
            if p >= 0 {
                // repeated multiplication (valid at zero too)
                let mut r = Series::constant(Exact::one(), n);
                for _ in 0..p {
                    r = r.mul(&x);
                }
                r.0
            } else {
                let mut r = Series::constant(Exact::one(), n);
                for _ in 0..(-p) {
                    r = r.mul(&x);
                }
                r.recip().0
            }
        }
        _ => panic!("MACHINERY: {f:?} has no exact Taylor coefficients"),
    }
}

#[cfg(test)]
mod tests {
    use super::*;
    fn close(a: DD, b: f64, tol: f64) -> bool {
        (a.to_f64() - b).abs() <= tol * b.abs().max(1e-300)
    }
    #[test]
    fn sanity() {
        let x = DD::f(0.75);
        let c = taylor_dd(Func::Exp, x, 3);
        let e = 0.75f64.exp();
        assert!(close(c[0], e, 1e-15));
        assert!(close(c[3], e / 6.0, 1e-15));
        let c = taylor_dd(Func::Atan, x, 3);
        // atan''' = (6x^2-2)/(1+x^2)^3 ; /6
        let d3 = (6.0 * 0.5625 - 2.0) / (1.5625f64).powi(3);
        assert!(close(c[3], d3 / 6.0, 1e-14));
        let c = taylor_dd(Func::BesselJ(0), DD::f(3.0), 2);
        assert!(close(c[0], -0.2600519549019334, 1e-14));
        assert!(close(c[1], -0.3390589585259365, 1e-14));
        let c = taylor_dd(Func::BesselJ(0), DD::f(1.0), 1);
        assert!(close(c[0], 0.7651976865579666, 1e-14));
        assert!(close(c[1], -0.4400505857449335, 1e-14));
        let c = taylor_dd(Func::SphJ(0), DD::f(-1.0), 1);
        assert!(close(c[0], 0.8414709848078965, 1e-14));
        assert!(close(c[1], 0.3011686789397568, 1e-14));
    }
}
