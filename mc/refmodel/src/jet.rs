//! The truncated algebra: square-zero generators g_1..g_r, allowed monomials = a down-closed family
//! of subsets (bit masks).  An element is a coefficient per allowed monomial.

use crate::Scalar;
use std::collections::HashMap;
use std::sync::Arc;

#[derive(Debug)]
pub struct Shape {
    /// allowed monomials, sorted by (popcount, value); monos[0] == 0 (the real part)
    pub monos: Vec<u32>,
    pub index: HashMap<u32, usize>,
    /// (i, j, k): monos[i] * monos[j] = monos[k], i and j both non-empty monomials, i <= j excluded? no: all ordered pairs with i,j >= 1
    mul: Vec<(u16, u16, u16)>,
    /// largest monomial size
    pub maxdeg: usize,
}

impl Shape {
    pub fn new(mut monos: Vec<u32>) -> Arc<Shape> {
        monos.push(0);
        monos.sort_by_key(|m| (m.count_ones(), *m));
        monos.dedup();
        // down-closure check
        let index: HashMap<u32, usize> = monos.iter().enumerate().map(|(i, m)| (*m, i)).collect();
        for m in &monos {
            let mut b = *m;
            while b != 0 {
                let bit = b & b.wrapping_neg();
                b &= b - 1;
                assert!(index.contains_key(&(m & !bit)), "MACHINERY: monomial family is not down-closed");
            }
        }
        let mut mul = Vec::new();
        for i in 1..monos.len() {
            for j in 1..monos.len() {
                if monos[i] & monos[j] == 0 {
                    if let Some(&k) = index.get(&(monos[i] | monos[j])) {
                        mul.push((i as u16, j as u16, k as u16));
                    }
                }
            }
        }
        let maxdeg = monos.iter().map(|m| m.count_ones() as usize).max().unwrap_or(0);
        Arc::new(Shape { monos, index, mul, maxdeg })
    }
    pub fn len(&self) -> usize {
        self.monos.len()
    }
}

#[derive(Clone, Debug)]
pub struct Jet<S: Scalar> {
    pub shape: Arc<Shape>,
    pub c: Vec<S>,
}

impl<S: Scalar> Jet<S> {
    pub fn zero(shape: &Arc<Shape>) -> Self {
        Jet { shape: shape.clone(), c: vec![S::zero(); shape.len()] }
    }
    pub fn constant(shape: &Arc<Shape>, v: S) -> Self {
        let mut j = Self::zero(shape);
        j.c[0] = v;
        j
    }
    pub fn re(&self) -> &S {
        &self.c[0]
    }
    pub fn get(&self, mono: u32) -> &S {
        &self.c[self.shape.index[&mono]]
    }
    pub fn set(&mut self, mono: u32, v: S) {
        let i = self.shape.index[&mono];
        self.c[i] = v;
    }
    pub fn add(&self, o: &Self) -> Self {
        Jet { shape: self.shape.clone(), c: self.c.iter().zip(&o.c).map(|(a, b)| a.add(b)).collect() }
    }
    pub fn sub(&self, o: &Self) -> Self {
        Jet { shape: self.shape.clone(), c: self.c.iter().zip(&o.c).map(|(a, b)| a.sub(b)).collect() }
    }
    pub fn neg(&self) -> Self {
        Jet { shape: self.shape.clone(), c: self.c.iter().map(|a| a.neg()).collect() }
    }
    pub fn abs(&self) -> Self {
        Jet { shape: self.shape.clone(), c: self.c.iter().map(|a| a.abs()).collect() }
    }
    pub fn scale(&self, s: &S) -> Self {
        Jet { shape: self.shape.clone(), c: self.c.iter().map(|a| a.mul(s)).collect() }
    }
    pub fn add_re(&self, s: &S) -> Self {
        let mut r = self.clone();
        r.c[0] = r.c[0].add(s);
        r
    }
    pub fn mul(&self, o: &Self) -> Self {
        let n = self.c.len();
        let mut r: Vec<S> = Vec::with_capacity(n);
        // real part times everything
        let a0 = &self.c[0];
        let b0 = &o.c[0];
        r.push(a0.mul(b0));
        for k in 1..n {
            r.push(a0.mul(&o.c[k]).add(&self.c[k].mul(b0)));
        }
        for &(i, j, k) in &self.shape.mul {
            let (i, j, k) = (i as usize, j as usize, k as usize);
            if self.c[i].is_zero() || o.c[j].is_zero() {
                continue;
            }
            r[k] = r[k].add(&self.c[i].mul(&o.c[j]));
        }
        Jet { shape: self.shape.clone(), c: r }
    }
    /// nilpotent part (real part set to zero)
    pub fn nil(&self) -> Self {
        let mut r = self.clone();
        r.c[0] = S::zero();
        r
    }
    /// sum_k coef[k] * nil(self)^k  (Horner); coef must have at least maxdeg+1 entries
    pub fn apply(&self, coef: &[S]) -> Self {
        let kmax = self.shape.maxdeg;
        assert!(coef.len() > kmax, "MACHINERY: not enough Taylor coefficients");
        let n = self.nil();
        let mut r = Jet::constant(&self.shape, coef[kmax].clone());
        for k in (0..kmax).rev() {
            r = r.mul(&n).add_re(&coef[k]);
        }
        r
    }
    pub fn map<T: Scalar>(&self, f: impl Fn(&S) -> T) -> Jet<T> {
        Jet { shape: self.shape.clone(), c: self.c.iter().map(f).collect() }
    }
}
