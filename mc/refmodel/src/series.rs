//! Truncated univariate power series over a Scalar, used to derive the Taylor coefficients of
//! every interface function from its defining ODE (never from num-dual's closed forms).

use crate::Scalar;

#[derive(Clone, Debug)]
pub struct Series<S: Scalar>(pub Vec<S>);

impl<S: Scalar> Series<S> {
    pub fn len(&self) -> usize {
        self.0.len()
    }
    pub fn zero(n: usize) -> Self {
        Series(vec![S::zero(); n])
    }
    pub fn constant(c: S, n: usize) -> Self {
        let mut s = Self::zero(n);
        s.0[0] = c;
        s
    }
    /// a0 + t
    pub fn var(a0: S, n: usize) -> Self {
        let mut s = Self::constant(a0, n);
        if n > 1 {
            s.0[1] = S::one();
        }
        s
    }
    pub fn add(&self, o: &Self) -> Self {
        Series(self.0.iter().zip(&o.0).map(|(a, b)| a.add(b)).collect())
    }
    pub fn sub(&self, o: &Self) -> Self {
        Series(self.0.iter().zip(&o.0).map(|(a, b)| a.sub(b)).collect())
    }
    pub fn neg(&self) -> Self {
        Series(self.0.iter().map(|a| a.neg()).collect())
    }
    pub fn scale(&self, c: &S) -> Self {
        Series(self.0.iter().map(|a| a.mul(c)).collect())
    }
    pub fn add_const(&self, c: &S) -> Self {
        let mut r = self.clone();
        r.0[0] = r.0[0].add(c);
        r
    }
    pub fn mul(&self, o: &Self) -> Self {
        let n = self.len();
        let mut r = vec![S::zero(); n];
        for i in 0..n {
            if self.0[i].is_zero() {
                continue;
            }
            for j in 0..(n - i) {
                r[i + j] = r[i + j].add(&self.0[i].mul(&o.0[j]));
            }
        }
        Series(r)
    }
    pub fn div(&self, o: &Self) -> Self {
        // q = self / o :  q_k = (a_k - sum_{i=1..k} o_i q_{k-i}) / o_0
        let n = self.len();
        let mut q: Vec<S> = Vec::with_capacity(n);
        for k in 0..n {
            let mut acc = self.0[k].clone();
            for i in 1..=k {
                acc = acc.sub(&o.0[i].mul(&q[k - i]));
            }
            q.push(acc.div(&o.0[0]));
        }
        Series(q)
    }
    pub fn recip(&self) -> Self {
        Self::constant(S::one(), self.len()).div(self)
    }
    pub fn deriv(&self) -> Self {
        // same length, last coefficient unknown -> set zero (callers integrate afterwards)
        let n = self.len();
        let mut r = vec![S::zero(); n];
        for k in 1..n {
            r[k - 1] = self.0[k].mul(&S::from_f64(k as f64));
        }
        Series(r)
    }
    /// integral with constant term c0
    pub fn integ(&self, c0: S) -> Self {
        let n = self.len();
        let mut r = vec![S::zero(); n];
        r[0] = c0;
        for k in 1..n {
            r[k] = self.0[k - 1].div(&S::from_f64(k as f64));
        }
        Series(r)
    }
    /// Y = X^p given y0 = x0^p  (X Y' = p X' Y)
    pub fn pow(&self, p: &S, y0: S) -> Self {
        let n = self.len();
        let mut y: Vec<S> = vec![S::zero(); n];
        y[0] = y0;
        for k in 1..n {
            let mut acc = S::zero();
            for i in 1..=k {
                // (p*i - (k-i)) x_i y_{k-i}
                let c = p.mul(&S::from_f64(i as f64)).sub(&S::from_f64((k - i) as f64));
                acc = acc.add(&c.mul(&self.0[i]).mul(&y[k - i]));
            }
            y[k] = acc.div(&S::from_f64(k as f64).mul(&self.0[0]));
        }
        Series(y)
    }
    /// Y = exp(X) given y0 = exp(x0)   (Y' = X' Y)
    pub fn exp(&self, y0: S) -> Self {
        let n = self.len();
        let mut y: Vec<S> = vec![S::zero(); n];
        y[0] = y0;
        for k in 1..n {
            let mut acc = S::zero();
            for i in 1..=k {
                acc = acc.add(&S::from_f64(i as f64).mul(&self.0[i]).mul(&y[k - i]));
            }
            y[k] = acc.div(&S::from_f64(k as f64));
        }
        Series(y)
    }
    /// (sin X, cos X) given (sin x0, cos x0)
    pub fn sin_cos(&self, s0: S, c0: S) -> (Self, Self) {
        let n = self.len();
        let mut s: Vec<S> = vec![S::zero(); n];
        let mut c: Vec<S> = vec![S::zero(); n];
        s[0] = s0;
        c[0] = c0;
        for k in 1..n {
            let mut as_ = S::zero();
            let mut ac = S::zero();
            for i in 1..=k {
                let ix = S::from_f64(i as f64).mul(&self.0[i]);
                as_ = as_.add(&ix.mul(&c[k - i]));
                ac = ac.sub(&ix.mul(&s[k - i]));
            }
            let kk = S::from_f64(k as f64);
            s[k] = as_.div(&kk);
            c[k] = ac.div(&kk);
        }
        (Series(s), Series(c))
    }
    /// (sinh X, cosh X)
    pub fn sinh_cosh(&self, s0: S, c0: S) -> (Self, Self) {
        let n = self.len();
        let mut s: Vec<S> = vec![S::zero(); n];
        let mut c: Vec<S> = vec![S::zero(); n];
        s[0] = s0;
        c[0] = c0;
        for k in 1..n {
            let mut as_ = S::zero();
            let mut ac = S::zero();
            for i in 1..=k {
                let ix = S::from_f64(i as f64).mul(&self.0[i]);
                as_ = as_.add(&ix.mul(&c[k - i]));
                ac = ac.add(&ix.mul(&s[k - i]));
            }
            let kk = S::from_f64(k as f64);
            s[k] = as_.div(&kk);
            c[k] = ac.div(&kk);
        }
        (Series(s), Series(c))
    }
}
