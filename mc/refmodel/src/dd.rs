//! Double-double arithmetic (~106 bits) with elementary and Bessel functions written from
//! scratch.  Audited against mpmath by /verif/audit (see DESIGN 2.2).

use crate::Scalar;

#[derive(Clone, Copy, Debug, PartialEq)]
pub struct DD {
    pub hi: f64,
    pub lo: f64,
}

#[inline]
fn two_sum(a: f64, b: f64) -> (f64, f64) {
    let s = a + b;
    let bb = s - a;
    let e = (a - (s - bb)) + (b - bb);
    (s, e)
}
#[inline]
fn quick_two_sum(a: f64, b: f64) -> (f64, f64) {
    let s = a + b;
    let e = b - (s - a);
    (s, e)
}
#[inline]
fn two_prod(a: f64, b: f64) -> (f64, f64) {
    let p = a * b;
    let e = a.mul_add(b, -p);
    (p, e)
}

pub const PI: DD = DD { hi: 3.141592653589793, lo: 1.2246467991473532e-16 };
pub const PI_2: DD = DD { hi: 1.5707963267948966, lo: 6.123233995736766e-17 };
const PI_2_3: f64 = -1.4973849048591698e-33;
pub const PI_4: DD = DD { hi: 0.7853981633974483, lo: 3.061616997868383e-17 };
pub const LN2: DD = DD { hi: 0.6931471805599453, lo: 2.3190468138462996e-17 };
pub const LN10: DD = DD { hi: 2.302585092994046, lo: -2.1707562233822494e-16 };

impl DD {
    pub const ZERO: DD = DD { hi: 0.0, lo: 0.0 };
    pub const ONE: DD = DD { hi: 1.0, lo: 0.0 };

    #[inline]
    pub fn new(hi: f64, lo: f64) -> DD {
        let (s, e) = two_sum(hi, lo);
        DD { hi: s, lo: e }
    }
    #[inline]
    pub fn f(x: f64) -> DD {
        DD { hi: x, lo: 0.0 }
    }
    #[inline]
    pub fn to_f64(self) -> f64 {
        self.hi + self.lo
    }
    pub fn is_finite(self) -> bool {
        self.hi.is_finite() && self.lo.is_finite()
    }
    pub fn is_nan(self) -> bool {
        self.hi.is_nan() || self.lo.is_nan()
    }
    #[inline]
    pub fn add_dd(self, o: DD) -> DD {
        let (s1, s2) = two_sum(self.hi, o.hi);
        let (t1, t2) = two_sum(self.lo, o.lo);
        let s2 = s2 + t1;
        let (s1, s2) = quick_two_sum(s1, s2);
        let s2 = s2 + t2;
        let (h, l) = quick_two_sum(s1, s2);
        DD { hi: h, lo: l }
    }
    #[inline]
    pub fn neg_dd(self) -> DD {
        DD { hi: -self.hi, lo: -self.lo }
    }
    #[inline]
    pub fn sub_dd(self, o: DD) -> DD {
        self.add_dd(o.neg_dd())
    }
    #[inline]
    pub fn mul_dd(self, o: DD) -> DD {
        let (p1, p2) = two_prod(self.hi, o.hi);
        let p2 = p2 + (self.hi * o.lo + self.lo * o.hi);
        let (h, l) = quick_two_sum(p1, p2);
        DD { hi: h, lo: l }
    }
    #[inline]
    pub fn mul_f(self, o: f64) -> DD {
        let (p1, p2) = two_prod(self.hi, o);
        let p2 = p2 + self.lo * o;
        let (h, l) = quick_two_sum(p1, p2);
        DD { hi: h, lo: l }
    }
    pub fn div_dd(self, o: DD) -> DD {
        if o.hi == 0.0 {
            return DD::f(self.hi / o.hi);
        }
        let q1 = self.hi / o.hi;
        if !q1.is_finite() {
            return DD::f(q1);
        }
        let r = self.sub_dd(o.mul_f(q1));
        let q2 = r.hi / o.hi;
        let r = r.sub_dd(o.mul_f(q2));
        let q3 = r.hi / o.hi;
        let (q1, q2) = quick_two_sum(q1, q2);
        DD { hi: q1, lo: q2 }.add_dd(DD::f(q3))
    }
    pub fn recip(self) -> DD {
        DD::ONE.div_dd(self)
    }
    pub fn abs_dd(self) -> DD {
        if self.hi < 0.0 || (self.hi == 0.0 && self.lo < 0.0) {
            self.neg_dd()
        } else {
            self
        }
    }
    pub fn lt(self, o: DD) -> bool {
        self.hi < o.hi || (self.hi == o.hi && self.lo < o.lo)
    }
    pub fn le(self, o: DD) -> bool {
        self.hi < o.hi || (self.hi == o.hi && self.lo <= o.lo)
    }
    pub fn sqr(self) -> DD {
        self.mul_dd(self)
    }
    pub fn ldexp(self, k: i32) -> DD {
        let s = 2.0f64.powi(k);
        DD { hi: self.hi * s, lo: self.lo * s }
    }
    pub fn sqrt(self) -> DD {
        if self.hi == 0.0 {
            return DD::ZERO;
        }
        if self.hi < 0.0 {
            return DD::f(f64::NAN);
        }
        // Karp's trick + one Newton step
        let x = 1.0 / self.hi.sqrt();
        let ax = self.hi * x;
        let axdd = DD::f(ax);
        let diff = self.sub_dd(axdd.sqr());
        let r = axdd.add_dd(DD::f(diff.hi * (x * 0.5)));
        // one more Newton step for safety: r = (r + self/r)/2
        r.add_dd(self.div_dd(r)).mul_f(0.5)
    }
    pub fn powi(self, n: i64) -> DD {
        if n == 0 {
            return DD::ONE;
        }
        let mut e = n.unsigned_abs();
        let mut b = self;
        let mut r = DD::ONE;
        while e > 0 {
            if e & 1 == 1 {
                r = r.mul_dd(b);
            }
            e >>= 1;
            if e > 0 {
                b = b.sqr();
            }
        }
        if n < 0 {
            r.recip()
        } else {
            r
        }
    }

    // ---------------------------------------------------------------- exp / ln
    pub fn exp(self) -> DD {
        let x = self;
        if x.hi > 709.7 {
            return DD::f(f64::INFINITY);
        }
        if x.hi < -745.0 {
            return DD::ZERO;
        }
        if x.hi == 0.0 && x.lo == 0.0 {
            return DD::ONE;
        }
        let k = (x.hi / LN2.hi).round();
        // r = x - k ln2, using a three-part ln2 for accuracy
        let r = x.sub_dd(LN2.mul_f(k)).sub_dd(DD::f(5.707708438416212e-34 * k));
        let s = r.expm1_small_scaled();
        s.add_dd(DD::ONE).ldexp(k as i32)
    }
    /// expm1 for |r| <= ~0.35 via scaling by 2^-9, Taylor, and 9 doublings in expm1 form
    fn expm1_small_scaled(self) -> DD {
        let r = self.ldexp(-9);
        // Taylor: r + r^2/2! + ... up to 12 terms
        let mut term = r;
        let mut sum = r;
        for i in 2..=14 {
            term = term.mul_dd(r).mul_dd(DD::ONE.div_dd(DD::f(i as f64)));
            sum = sum.add_dd(term);
            if term.hi.abs() < 1e-40 * sum.hi.abs() {
                break;
            }
        }
        let mut s = sum;
        for _ in 0..9 {
            // (1+s)^2 - 1 = 2s + s^2
            s = s.mul_f(2.0).add_dd(s.sqr());
        }
        s
    }
    pub fn exp_m1(self) -> DD {
        if self.hi.abs() < 0.3 {
            self.expm1_small_scaled()
        } else {
            self.exp().sub_dd(DD::ONE)
        }
    }
    pub fn ln(self) -> DD {
        if self.hi <= 0.0 {
            return DD::f(if self.hi == 0.0 { f64::NEG_INFINITY } else { f64::NAN });
        }
        if self.hi == 1.0 && self.lo == 0.0 {
            return DD::ZERO;
        }
        let mut y = DD::f(self.hi.ln());
        for _ in 0..2 {
            // y <- y + x exp(-y) - 1
            let e = y.neg_dd().exp();
            y = y.add_dd(self.mul_dd(e).sub_dd(DD::ONE));
        }
        y
    }
    pub fn ln_1p(self) -> DD {
        if self.hi.abs() > 0.25 {
            return self.add_dd(DD::ONE).ln();
        }
        if self.hi == 0.0 {
            return self;
        }
        let mut y = DD::f(self.hi.ln_1p());
        for _ in 0..2 {
            let em = y.exp_m1();
            y = y.sub_dd(em.sub_dd(self).div_dd(em.add_dd(DD::ONE)));
        }
        y
    }
    pub fn powf(self, p: DD) -> DD {
        if p.hi == 0.0 {
            return DD::ONE;
        }
        self.ln().mul_dd(p).exp()
    }
    pub fn cbrt(self) -> DD {
        if self.hi == 0.0 {
            return DD::ZERO;
        }
        let mut y = DD::f(self.hi.cbrt());
        for _ in 0..2 {
            let y2 = y.sqr();
            y = y.sub_dd(y2.mul_dd(y).sub_dd(self).div_dd(y2.mul_f(3.0)));
        }
        y
    }

    // ---------------------------------------------------------------- trig
    /// (sin, cos)
    pub fn sin_cos(self) -> (DD, DD) {
        if self.hi == 0.0 {
            return (self, DD::ONE);
        }
        let k = (self.hi / PI_2.hi).round();
        let r = self.sub_dd(PI_2.mul_f(k)).sub_dd(DD::f(PI_2_3 * k));
        let (s, c) = r.sin_cos_taylor();
        match (k as i64).rem_euclid(4) {
            0 => (s, c),
            1 => (c, s.neg_dd()),
            2 => (s.neg_dd(), c.neg_dd()),
            _ => (c.neg_dd(), s),
        }
    }
    fn sin_cos_taylor(self) -> (DD, DD) {
        // |self| <= pi/4 + eps
        let x = self;
        let x2 = x.sqr();
        let mut s = x;
        let mut c = DD::ONE;
        let mut ts = x;
        let mut tc = DD::ONE;
        let mut i = 1.0;
        loop {
            tc = tc.mul_dd(x2).div_dd(DD::f(-(2.0 * i - 1.0) * (2.0 * i)));
            ts = ts.mul_dd(x2).div_dd(DD::f(-(2.0 * i) * (2.0 * i + 1.0)));
            c = c.add_dd(tc);
            s = s.add_dd(ts);
            i += 1.0;
            if (tc.hi.abs() < 1e-36 && ts.hi.abs() < 1e-36 * x.hi.abs().max(1e-300)) || i > 40.0 {
                break;
            }
        }
        (s, c)
    }
    pub fn sin(self) -> DD {
        self.sin_cos().0
    }
    pub fn cos(self) -> DD {
        self.sin_cos().1
    }
    pub fn tan(self) -> DD {
        let (s, c) = self.sin_cos();
        s.div_dd(c)
    }
    /// atan2(y, x)
    pub fn atan2(y: DD, x: DD) -> DD {
        if x.hi == 0.0 && y.hi == 0.0 {
            return DD::ZERO;
        }
        if y.hi == 0.0 && y.lo == 0.0 {
            return if x.hi > 0.0 { DD::ZERO } else { PI };
        }
        if x.hi == 0.0 && x.lo == 0.0 {
            return if y.hi > 0.0 { PI_2 } else { PI_2.neg_dd() };
        }
        let r = x.sqr().add_dd(y.sqr()).sqrt();
        let xx = x.div_dd(r);
        let yy = y.div_dd(r);
        let mut z = DD::f(y.hi.atan2(x.hi));
        for _ in 0..2 {
            let (s, c) = z.sin_cos();
            if xx.hi.abs() > yy.hi.abs() {
                z = z.add_dd(yy.sub_dd(s).div_dd(c));
            } else {
                z = z.sub_dd(xx.sub_dd(c).div_dd(s));
            }
        }
        z
    }
    pub fn atan(self) -> DD {
        if self.hi.abs() < 1e-160 {
            return self;
        }
        DD::atan2(self, DD::ONE)
    }
    pub fn asin(self) -> DD {
        if self.hi.abs() < 1e-160 {
            return self;
        }
        let c = DD::ONE.sub_dd(self.sqr()).sqrt();
        DD::atan2(self, c)
    }
    pub fn acos(self) -> DD {
        let s = DD::ONE.sub_dd(self.sqr()).sqrt();
        DD::atan2(s, self)
    }

    // ---------------------------------------------------------------- hyperbolic
    pub fn sinh(self) -> DD {
        if self.hi.abs() < 0.3 {
            // (e^x - e^-x)/2 = (em + em/(1+em))/2 with em = expm1(x)
            let em = self.exp_m1();
            em.add_dd(em.div_dd(em.add_dd(DD::ONE))).mul_f(0.5)
        } else {
            let e = self.exp();
            e.sub_dd(e.recip()).mul_f(0.5)
        }
    }
    pub fn cosh(self) -> DD {
        let e = self.exp();
        e.add_dd(e.recip()).mul_f(0.5)
    }
    pub fn tanh(self) -> DD {
        if self.hi.abs() > 40.0 {
            return DD::f(self.hi.signum());
        }
        self.sinh().div_dd(self.cosh())
    }
    pub fn asinh(self) -> DD {
        if self.hi.abs() < 1e-160 {
            return self;
        }
        let mut y = DD::f(self.hi.asinh());
        for _ in 0..2 {
            y = y.sub_dd(y.sinh().sub_dd(self).div_dd(y.cosh()));
        }
        y
    }
    pub fn acosh(self) -> DD {
        self.add_dd(self.sqr().sub_dd(DD::ONE).sqrt()).ln()
    }
    pub fn atanh(self) -> DD {
        if self.hi.abs() < 1e-160 {
            return self;
        }
        // 0.5 * ln1p(2x/(1-x))
        let t = self.mul_f(2.0).div_dd(DD::ONE.sub_dd(self));
        t.ln_1p().mul_f(0.5)
    }

    // ---------------------------------------------------------------- Bessel (cylindrical)
    /// (J0, J1)
    pub fn bessel_j01(self) -> (DD, DD) {
        let ax = self.abs_dd();
        let sign = if self.hi < 0.0 { -1.0 } else { 1.0 };
        if ax.hi < 2.0 {
            let j0 = bessel_series(ax, 0);
            let j1 = bessel_series(ax, 1);
            return (j0, j1.mul_f(sign));
        }
        // Miller's backward recurrence
        let n0 = (2.0 * ax.hi + 80.0) as i64;
        let n0 = n0 + (n0 & 1); // even
        let mut jp = DD::ZERO; // J_{k+1}
        let mut jk = DD::f(1e-280); // J_k at k = n0
        let mut norm = DD::ZERO;
        let two_over_x = DD::f(2.0).div_dd(ax);
        let mut k = n0;
        let mut j1 = DD::ZERO;
        while k > 0 {
            if k % 2 == 0 {
                norm = norm.add_dd(jk.mul_f(2.0));
            }
            if k == 1 {
                j1 = jk;
            }
            let jm = two_over_x.mul_f(k as f64).mul_dd(jk).sub_dd(jp);
            jp = jk;
            jk = jm;
            k -= 1;
        }
        // now jk = J_0 (unnormalised), jp = J_1
        let _ = j1;
        norm = norm.add_dd(jk);
        (jk.div_dd(norm), jp.div_dd(norm).mul_f(sign))
    }
    pub fn bessel_jn(self, n: usize) -> DD {
        let ax = self.abs_dd();
        if ax.hi < 2.0 {
            let v = bessel_series(ax, n);
            return if n % 2 == 1 && self.hi < 0.0 { v.neg_dd() } else { v };
        }
        let (j0, j1) = self.bessel_j01();
        match n {
            0 => j0,
            1 => j1,
            2 => j1.mul_f(2.0).div_dd(self).sub_dd(j0),
            _ => panic!("MACHINERY: bessel order {n} not supported above |x|=2"),
        }
    }

    // ---------------------------------------------------------------- spherical Bessel
    pub fn sph_jn(self, n: usize) -> DD {
        let x = self;
        if x.hi.abs() < 1.0 {
            return sph_series(x, n);
        }
        let (s, c) = x.sin_cos();
        match n {
            0 => s.div_dd(x),
            1 => s.sub_dd(x.mul_dd(c)).div_dd(x.sqr()),
            2 => {
                let x2 = x.sqr();
                DD::f(3.0).sub_dd(x2).mul_dd(s).sub_dd(x.mul_dd(c).mul_f(3.0)).div_dd(x2.mul_dd(x))
            }
            _ => panic!("MACHINERY: spherical bessel order {n}"),
        }
    }
}

/// Maclaurin coefficient list of J_n: J_n(x) = sum_m a_m x^(2m+n), a_m = (-1)^m / (2^(2m+n) m! (m+n)!)
pub fn bessel_maclaurin_coeffs(n: usize, terms: usize) -> Vec<DD> {
    let mut out = Vec::with_capacity(terms);
    // a_0 = 1/(2^n n!)
    let mut a = DD::ONE;
    for i in 1..=n {
        a = a.div_dd(DD::f(2.0 * i as f64));
    }
    out.push(a);
    for m in 1..terms {
        a = a.div_dd(DD::f(-4.0 * (m as f64) * ((m + n) as f64)));
        out.push(a);
    }
    out
}

fn bessel_series(x: DD, n: usize) -> DD {
    let co = bessel_maclaurin_coeffs(n, 40);
    let x2 = x.sqr();
    let mut sum = DD::ZERO;
    for a in co.iter().rev() {
        sum = sum.mul_dd(x2).add_dd(*a);
    }
    sum.mul_dd(x.powi(n as i64))
}

/// Maclaurin coefficients of j_n: j_n(x) = sum_m a_m x^(2m+n), a_m = (-1)^m / (2^m m! (2m+2n+1)!!)
pub fn sph_maclaurin_coeffs(n: usize, terms: usize) -> Vec<DD> {
    let mut out = Vec::with_capacity(terms);
    // a_0 = 1/(2n+1)!!
    let mut a = DD::ONE;
    let mut k = 1;
    while k <= 2 * n + 1 {
        a = a.div_dd(DD::f(k as f64));
        k += 2;
    }
    out.push(a);
    for m in 1..terms {
        a = a.div_dd(DD::f(-2.0 * (m as f64) * ((2 * m + 2 * n + 1) as f64)));
        out.push(a);
    }
    out
}

fn sph_series(x: DD, n: usize) -> DD {
    let co = sph_maclaurin_coeffs(n, 30);
    let x2 = x.sqr();
    let mut sum = DD::ZERO;
    for a in co.iter().rev() {
        sum = sum.mul_dd(x2).add_dd(*a);
    }
    sum.mul_dd(x.powi(n as i64))
}

impl Scalar for DD {
    fn zero() -> Self {
        DD::ZERO
    }
    fn one() -> Self {
        DD::ONE
    }
    fn from_f64(x: f64) -> Self {
        DD::f(x)
    }
    fn add(&self, o: &Self) -> Self {
        self.add_dd(*o)
    }
    fn sub(&self, o: &Self) -> Self {
        self.sub_dd(*o)
    }
    fn mul(&self, o: &Self) -> Self {
        self.mul_dd(*o)
    }
    fn div(&self, o: &Self) -> Self {
        self.div_dd(*o)
    }
    fn neg(&self) -> Self {
        self.neg_dd()
    }
    fn abs(&self) -> Self {
        self.abs_dd()
    }
    fn is_zero(&self) -> bool {
        self.hi == 0.0 && self.lo == 0.0
    }
    fn to_f64_approx(&self) -> f64 {
        self.to_f64()
    }
}

impl std::fmt::Display for DD {
    fn fmt(&self, f: &mut std::fmt::Formatter) -> std::fmt::Result {
        write!(f, "{:e}{:+e}", self.hi, self.lo)
    }
}
