//! A coarse "bit budget" scalar: every value is abstracted to (hi, lo) with |v| < 2^hi and v an
//! integer multiple of 2^lo.  Running an operation of the algebra over this scalar bounds the
//! mantissa width (hi - lo) of every sum of products of operand parts, i.e. of every intermediate
//! of any evaluation order: if the width stays below the float's precision, no rounding can occur.

use crate::Scalar;

#[derive(Clone, Copy, Debug, PartialEq)]
pub struct Bits {
    pub zero: bool,
    pub hi: i32,
    pub lo: i32,
}

impl Bits {
    pub fn width(&self) -> i32 {
        if self.zero {
            0
        } else {
            self.hi - self.lo
        }
    }
}

impl Scalar for Bits {
    fn zero() -> Self {
        Bits { zero: true, hi: 0, lo: 0 }
    }
    fn one() -> Self {
        Bits { zero: false, hi: 1, lo: 0 }
    }
    fn from_f64(x: f64) -> Self {
        if x == 0.0 {
            return Self::zero();
        }
        let e = crate::Exact::from_float(x).expect("finite");
        let lo = e.exponent();
        let hi = lo + e.mantissa_bits() as i32;
        Bits { zero: false, hi, lo }
    }
    fn add(&self, o: &Self) -> Self {
        if self.zero {
            return *o;
        }
        if o.zero {
            return *self;
        }
        Bits { zero: false, hi: self.hi.max(o.hi) + 1, lo: self.lo.min(o.lo) }
    }
    fn sub(&self, o: &Self) -> Self {
        self.add(o)
    }
    fn mul(&self, o: &Self) -> Self {
        if self.zero || o.zero {
            return Self::zero();
        }
        Bits { zero: false, hi: self.hi + o.hi, lo: self.lo + o.lo }
    }
    fn div(&self, o: &Self) -> Self {
        // only meaningful for power-of-two divisors (width 1)
        if self.zero {
            return *self;
        }
        assert!(!o.zero && o.hi - o.lo == 1, "MACHINERY: bit-budget division by a non power of two");
        // o = 2^lo exactly
        Bits { zero: false, hi: self.hi - o.lo, lo: self.lo - o.lo }
    }
    fn neg(&self) -> Self {
        *self
    }
    fn abs(&self) -> Self {
        *self
    }
    fn is_zero(&self) -> bool {
        self.zero
    }
    fn to_f64_approx(&self) -> f64 {
        self.width() as f64
    }
}
