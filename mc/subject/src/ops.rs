//! The operation alphabet: one enum, executed (a) on the real num-dual types and (b) in the
//! reference algebra (value, propagated error bound).

use crate::layout::Flt;
use num_dual::{BesselDual, DualNum};
use num_traits::Signed;
use refmodel::{taylor_dd, taylor_exact, Exact, Func, Jet, Scalar, DD};

#[derive(Clone, Copy, Debug, PartialEq)]
pub enum Op {
    // ---- unary interface functions
    Recip,
    Sqrt,
    Cbrt,
    Exp,
    Exp2,
    ExpM1,
    Ln,
    Log(f64),
    Log2,
    Log10,
    Ln1p,
    Sin,
    Cos,
    /// first / second component of sin_cos
    SinCosS,
    SinCosC,
    Tan,
    Asin,
    Acos,
    Atan,
    Sinh,
    Cosh,
    Tanh,
    Asinh,
    Acosh,
    Atanh,
    SphJ0,
    SphJ1,
    SphJ2,
    Powi(i32),
    Powf(f64),
    Abs,
    Signum,
    Neg,
    Inv,
    // ---- binary
    Add,
    Sub,
    Mul,
    Div,
    Atan2,
    AbsSub,
    Powd,
    // ---- scalar right operands
    AddF(f64),
    SubF(f64),
    MulF(f64),
    DivF(f64),
    // ---- compound assignment and borrowed right operands (same semantics as the plain forms)
    AddA,
    SubA,
    MulA,
    DivA,
    AddAF(f64),
    SubAF(f64),
    MulAF(f64),
    DivAF(f64),
    AddRef,
    SubRef,
    MulRef,
    DivRef,
    /// iterator sum / product over k operands
    Sum(usize),
    Product(usize),
    // ---- ternary
    MulAdd,
    // ---- Bessel (f64, Copy types only; executed through apply_bessel)
    BesselJ0,
    BesselJ1,
    BesselJ2,
}

impl Op {
    pub fn arity(&self) -> usize {
        use Op::*;
        match self {
            Add | Sub | Mul | Div | Atan2 | AbsSub | Powd | AddA | SubA | MulA | DivA | AddRef | SubRef | MulRef | DivRef => 2,
            MulAdd => 3,
            Sum(k) | Product(k) => *k,
            _ => 1,
        }
    }
    pub fn name(&self) -> String {
        format!("{self:?}").to_lowercase()
    }
    /// the Taylor-series function behind a unary smooth operation
    pub fn func(&self) -> Option<Func> {
        use Op::*;
        Some(match *self {
            Recip | Inv => Func::Recip,
            Sqrt => Func::Sqrt,
            Cbrt => Func::Cbrt,
            Exp => Func::Exp,
            Exp2 => Func::Exp2,
            ExpM1 => Func::ExpM1,
            Ln => Func::Ln,
            Log(b) => Func::Log(b),
            Log2 => Func::Log2,
            Log10 => Func::Log10,
            Ln1p => Func::Ln1p,
            Sin | SinCosS => Func::Sin,
            Cos | SinCosC => Func::Cos,
            Tan => Func::Tan,
            Asin => Func::Asin,
            Acos => Func::Acos,
            Atan => Func::Atan,
            Sinh => Func::Sinh,
            Cosh => Func::Cosh,
            Tanh => Func::Tanh,
            Asinh => Func::Asinh,
            Acosh => Func::Acosh,
            Atanh => Func::Atanh,
            SphJ0 => Func::SphJ(0),
            SphJ1 => Func::SphJ(1),
            SphJ2 => Func::SphJ(2),
            BesselJ0 => Func::BesselJ(0),
            BesselJ1 => Func::BesselJ(1),
            BesselJ2 => Func::BesselJ(2),
            Powi(n) => Func::Powi(n as i64),
            Powf(p) => Func::Powf(p),
            _ => return None,
        })
    }
    /// is the real part inside the (open) domain of the operation?
    pub fn in_domain(&self, re: &[f64]) -> bool {
        use Op::*;
        let x = re[0];
        match *self {
            Recip | Inv => x != 0.0,
            Sqrt | Ln | Log(_) | Log2 | Log10 => x > 0.0,
            Cbrt => x != 0.0,
            Ln1p => x > -1.0,
            Asin | Acos | Atanh => x.abs() < 1.0,
            Acosh => x > 1.0,
            Tan => x.cos().abs() > 1e-3,
            Powi(n) => n >= 0 || x != 0.0,
            Powf(_) => x > 0.0,
            Div | DivA | DivRef => re[1] != 0.0,
            DivF(f) | DivAF(f) => f != 0.0,
            Atan2 => re[0] != 0.0 || re[1] != 0.0,
            Powd => x > 0.0,
            Abs | Signum => x != 0.0,
            AbsSub => re[0] != re[1],
            _ => true,
        }
    }
}

/// execute on the real code (everything except the Bessel operations)
pub fn apply_impl<F: Flt, D: DualNum<F>>(op: Op, a: &[D]) -> D {
    use Op::*;
    let x = &a[0];
    let f = |v: f64| F::from64(v);
    match op {
        Recip => x.recip(),
        Sqrt => x.sqrt(),
        Cbrt => x.cbrt(),
        Exp => x.exp(),
        Exp2 => x.exp2(),
        ExpM1 => x.exp_m1(),
        Ln => x.ln(),
        Log(b) => x.log(f(b)),
        Log2 => x.log2(),
        Log10 => x.log10(),
        Ln1p => x.ln_1p(),
        Sin => x.sin(),
        Cos => x.cos(),
        SinCosS => x.sin_cos().0,
        SinCosC => x.sin_cos().1,
        Tan => x.tan(),
        Asin => x.asin(),
        Acos => x.acos(),
        Atan => x.atan(),
        Sinh => x.sinh(),
        Cosh => x.cosh(),
        Tanh => x.tanh(),
        Asinh => x.asinh(),
        Acosh => x.acosh(),
        Atanh => x.atanh(),
        SphJ0 => x.sph_j0(),
        SphJ1 => x.sph_j1(),
        SphJ2 => x.sph_j2(),
        Powi(n) => x.powi(n),
        Powf(p) => x.powf(f(p)),
        Abs => Signed::abs(x),
        Signum => Signed::signum(x),
        Neg => -x.clone(),
        Inv => num_traits::Inv::inv(x.clone()),
        Add => x.clone() + a[1].clone(),
        Sub => x.clone() - a[1].clone(),
        Mul => x.clone() * a[1].clone(),
        Div => x.clone() / a[1].clone(),
        Atan2 => x.atan2(a[1].clone()),
        AbsSub => Signed::abs_sub(x, &a[1]),
        Powd => x.powd(a[1].clone()),
        AddF(s) => x.clone() + f(s),
        SubF(s) => x.clone() - f(s),
        MulF(s) => x.clone() * f(s),
        DivF(s) => x.clone() / f(s),
        MulAdd => x.mul_add(a[1].clone(), a[2].clone()),
        AddA => {
            let mut r = x.clone();
            r += a[1].clone();
            r
        }
        SubA => {
            let mut r = x.clone();
            r -= a[1].clone();
            r
        }
        MulA => {
            let mut r = x.clone();
            r *= a[1].clone();
            r
        }
        DivA => {
            let mut r = x.clone();
            r /= a[1].clone();
            r
        }
        AddAF(s) => {
            let mut r = x.clone();
            r += f(s);
            r
        }
        SubAF(s) => {
            let mut r = x.clone();
            r -= f(s);
            r
        }
        MulAF(s) => {
            let mut r = x.clone();
            r *= f(s);
            r
        }
        DivAF(s) => {
            let mut r = x.clone();
            r /= f(s);
            r
        }
        AddRef => x.clone() + &a[1],
        SubRef => x.clone() - &a[1],
        MulRef => x.clone() * &a[1],
        DivRef => x.clone() / &a[1],
        Sum(_) => a.iter().cloned().sum(),
        Product(_) => a.iter().cloned().product(),
        BesselJ0 | BesselJ1 | BesselJ2 => panic!("MACHINERY: Bessel operations go through apply_bessel"),
    }
}

pub fn apply_bessel<D: BesselDual>(op: Op, x: D) -> D {
    match op {
        Op::BesselJ0 => x.bessel_j0(),
        Op::BesselJ1 => x.bessel_j1(),
        Op::BesselJ2 => x.bessel_j2(),
        _ => panic!("MACHINERY: not a Bessel operation"),
    }
}

impl Op {
    /// the plain operation a syntactic variant stands for
    pub fn canonical(&self) -> Op {
        use Op::*;
        match *self {
            AddA | AddRef => Add,
            SubA | SubRef => Sub,
            MulA | MulRef => Mul,
            DivA | DivRef => Div,
            AddAF(s) => AddF(s),
            SubAF(s) => SubF(s),
            MulAF(s) => MulF(s),
            DivAF(s) => DivF(s),
            Inv => Recip,
            o => o,
        }
    }
}

/// Rounding-error constants (multiples of the unit roundoff), DESIGN 2.5.
pub fn kappa(op: Op) -> f64 {
    use Op::*;
    let op = op.canonical();
    // calibrated on the pinned tree (DESIGN 2.5): next power of two >= 4 x the largest observed
    // ratio of the class, capped at 2^10
    match op {
        Add | Sub | Neg | AddF(_) | SubF(_) | Abs | Signum | AbsSub => 2.0,
        Mul | MulF(_) | DivF(_) => 8.0,
        Div | Recip | Inv => 32.0,
        MulAdd => 16.0,
        // plain-float powi is repeated squaring: relative error up to |n| u / 2
        Powi(n) => 128.0 + 4.0 * (n as f64).abs(),
        _ => 128.0,
    }
}

/// A value of the reference algebra with its propagated absolute error bound (same shape,
/// non-negative coefficients).
#[derive(Clone, Debug)]
pub struct Val {
    pub v: Jet<DD>,
    pub e: Jet<DD>,
}

impl Val {
    pub fn exact(v: Jet<DD>) -> Val {
        let e = Jet::zero(&v.shape);
        Val { v, e }
    }
}

fn abs_coefs(c: &[DD]) -> Vec<DD> {
    c.iter().map(|x| x.abs_dd()).collect()
}

/// derivative series coefficients: g'(a0+t) = sum (k+1) c_{k+1} t^k
fn deriv_coefs(c: &[DD]) -> Vec<DD> {
    (1..c.len()).map(|k| c[k].mul_f(k as f64)).collect()
}

thread_local! {
    static TAYLOR_CACHE: std::cell::RefCell<std::collections::HashMap<(String, u64, u64, usize), Vec<DD>>> = std::cell::RefCell::new(std::collections::HashMap::new());
}

/// memoised Taylor coefficients (the same point is visited with many part assignments)
pub fn cached_taylor(f: Func, a0: DD, k: usize) -> Vec<DD> {
    let key = (format!("{f:?}"), a0.hi.to_bits(), a0.lo.to_bits(), k);
    TAYLOR_CACHE.with(|c| {
        let mut c = c.borrow_mut();
        if let Some(v) = c.get(&key) {
            return v.clone();
        }
        if c.len() > 20000 {
            c.clear();
        }
        let v = taylor_dd(f, a0, k);
        c.insert(key, v.clone());
        v
    })
}

/// unary smooth function: value, majorant M = sum |c_k| |N|^k, propagated input error |g'|(|X|) E_in
fn smooth(f: Func, x: &Val, kap: f64, u: f64) -> Val {
    let k = x.v.shape.maxdeg;
    let has_err = x.e.c.iter().any(|c| !c.is_zero());
    let c = cached_taylor(f, *x.v.re(), if has_err { k + 3 } else { k + 1 });
    let v = x.v.apply(&c[..=k]);
    let ax = x.v.abs();
    let m = ax.apply(&abs_coefs(&c[..=k]));
    let mut e = m.scale(&DD::f(kap * u));
    if has_err {
        // g(X + E) - g(X) <= sum_j |g^(j)|(|X|) E^j / j!  (j = 1: the first-order bound; the
        // higher terms matter only where the first-order term vanishes)
        let mut dc = c.clone();
        let mut ej = x.e.clone();
        let mut fact = 1.0;
        for j in 1..=3usize {
            dc = deriv_coefs(&dc);
            fact *= j as f64;
            if dc.len() <= k || dc.iter().any(|c| !c.is_finite()) {
                break;
            }
            let dg = ax.apply(&abs_coefs(&dc[..=k]));
            e = e.add(&dg.mul(&ej).scale(&DD::f(1.0 / fact)));
            if j < 3 {
                ej = ej.mul(&x.e);
            }
        }
    }
    Val { v, e }
}

fn mul_val(x: &Val, y: &Val, kap: f64, u: f64) -> Val {
    let v = x.v.mul(&y.v);
    let (ax, ay) = (x.v.abs(), y.v.abs());
    let m = ax.mul(&ay);
    let e = ax.mul(&y.e).add(&ay.mul(&x.e)).add(&x.e.mul(&y.e)).add(&m.scale(&DD::f(kap * u)));
    Val { v, e }
}

fn add_val(x: &Val, y: &Val, sub: bool, kap: f64, u: f64) -> Val {
    let v = if sub { x.v.sub(&y.v) } else { x.v.add(&y.v) };
    let m = x.v.abs().add(&y.v.abs());
    let e = x.e.add(&y.e).add(&m.scale(&DD::f(kap * u)));
    Val { v, e }
}

fn constant_like(x: &Val, c: DD) -> Val {
    Val::exact(Jet::constant(&x.v.shape, c))
}

/// the axis-safe atan2: atan2(y0,x0) + atan(Y'/X') with X' + iY' = (X + iY)(x0 - i y0)
fn atan2_val(y: &Val, x: &Val, u: f64) -> Val {
    let (y0, x0) = (*y.v.re(), *x.v.re());
    let base = DD::atan2(y0, x0);
    // X' = X x0 + Y y0 ; Y' = Y x0 - X y0   (exact linear combinations: kappa 0 here, the
    // rounding of the whole composite is charged once at the end)
    let xp = x.v.scale(&x0).add(&y.v.scale(&y0));
    let yp = y.v.scale(&x0).sub(&x.v.scale(&y0));
    let r2 = *xp.re();
    // q = Y'/X' is nilpotent; atan(q) = q - q^3/3 + q^5/5 ...
    let k = x.v.shape.maxdeg;
    let rc = cached_taylor(Func::Recip, r2, k);
    let q = yp.mul(&xp.apply(&rc));
    let ac = cached_taylor(Func::Atan, DD::ZERO, k);
    let v = q.apply(&ac).add_re(&base);
    // majorant: the same expression with absolute values
    let axp = x.v.abs().scale(&x0.abs_dd()).add(&y.v.abs().scale(&y0.abs_dd()));
    let ayp = y.v.abs().scale(&x0.abs_dd()).add(&x.v.abs().scale(&y0.abs_dd()));
    let aq = ayp.nil().mul(&axp.apply(&abs_coefs(&rc)));
    let mut m = aq.apply(&abs_coefs(&ac));
    m.c[0] = base.abs_dd();
    // input errors: d atan2 = (x dy - y dx)/r^2 to first order, majorised
    let dq = axp.apply(&abs_coefs(&rc));
    let ein = x.e.scale(&y0.abs_dd()).add(&y.e.scale(&x0.abs_dd())).mul(&dq);
    let e = ein.add(&m.scale(&DD::f(kappa(Op::Atan2) * u)));
    Val { v, e }
}

/// Reference semantics of every operation: value and first-order error bound.  `u` is the unit
/// roundoff of the float type under test.  Composite interface functions (tan, tanh, powd,
/// mul_add, sph_j*, bessel_j2) additionally carry the propagated bound of their defining
/// expression (DESIGN 2.5) — that is done by the caller through `defining_bound`.
pub fn apply_ref(op: Op, a: &[Val], u: f64) -> Val {
    use Op::*;
    let op = op.canonical();
    let kap = kappa(op);
    let x = &a[0];
    match op {
        Add => add_val(x, &a[1], false, kap, u),
        Sub => add_val(x, &a[1], true, kap, u),
        Neg => Val { v: x.v.neg(), e: x.e.clone() },
        Mul => mul_val(x, &a[1], kap, u),
        Div => {
            let r = smooth(Func::Recip, &a[1], kap, u);
            mul_val(x, &r, kap, u)
        }
        AddF(s) => Val { v: x.v.add_re(&DD::f(s)), e: x.e.add_re(&DD::f(u).mul_dd(x.v.re().abs_dd().add_dd(DD::f(s.abs())))) },
        SubF(s) => Val { v: x.v.add_re(&DD::f(-s)), e: x.e.add_re(&DD::f(u).mul_dd(x.v.re().abs_dd().add_dd(DD::f(s.abs())))) },
        MulF(s) => Val { v: x.v.scale(&DD::f(s)), e: x.e.scale(&DD::f(s.abs())).add(&x.v.abs().scale(&DD::f(s.abs() * kap * u))) },
        DivF(s) => {
            let r = DD::ONE.div_dd(DD::f(s));
            Val { v: x.v.scale(&r), e: x.e.scale(&r.abs_dd()).add(&x.v.abs().scale(&r.abs_dd().mul_f(kap * u))) }
        }
        Abs => {
            if x.v.re().hi >= 0.0 {
                x.clone()
            } else {
                Val { v: x.v.neg(), e: x.e.clone() }
            }
        }
        Signum => {
            let s = if x.v.re().hi > 0.0 { 1.0 } else if x.v.re().hi < 0.0 { -1.0 } else { 0.0 };
            constant_like(x, DD::f(s))
        }
        AbsSub => {
            if a[1].v.re().lt(*x.v.re()) {
                add_val(x, &a[1], true, kap, u)
            } else {
                constant_like(x, DD::ZERO)
            }
        }
        Atan2 => atan2_val(x, &a[1], u),
        Powd => {
            // exp(n ln x) evaluated in the reference algebra
            let l = smooth(Func::Ln, x, kappa(Ln), u);
            let p = mul_val(&l, &a[1], kappa(Mul), u);
            smooth(Func::Exp, &p, kappa(Exp), u)
        }
        MulAdd => {
            let p = mul_val(x, &a[1], kappa(Mul), u);
            add_val(&p, &a[2], false, kappa(Add), u)
        }
        Sum(_) => {
            let mut acc = constant_like(x, DD::ZERO);
            for y in a {
                acc = add_val(&acc, y, false, kappa(Add), u);
            }
            acc
        }
        Product(_) => {
            let mut acc = constant_like(x, DD::ONE);
            for y in a {
                acc = mul_val(&acc, y, kappa(Mul), u);
            }
            acc
        }
        Powf(p) => {
            // conditioning with respect to the (rounded) exponent: + kappa u |p| |dc_k/dp| |N|^k
            let mut r = smooth(Func::Powf(p), x, kap, u);
            let k = x.v.shape.maxdeg;
            let h = 2.0f64.powi(-30);
            if p != 0.0 && !x.v.re().is_zero() {
                let c0 = cached_taylor(Func::Powf(p), *x.v.re(), k + 1);
                let c1 = cached_taylor(Func::Powf(p * (1.0 + h)), *x.v.re(), k + 1);
                let dc: Vec<DD> = c0.iter().zip(&c1).map(|(a, b)| b.sub_dd(*a).abs_dd().mul_f(1.0 / h)).collect();
                let extra = x.v.abs().apply(&dc[..=k]).scale(&DD::f(kap * u));
                r.e = r.e.add(&extra);
            }
            r
        }
        SphJ0 | SphJ1 | SphJ2 => {
            // all derivatives of j_n are bounded by 1: + the rounding level of a well-conditioned
            // evaluation, 16 u sum |N^k| (C15: "accuracy is measured against the magnitude of the
            // true value plus the rounding level of a well-conditioned evaluation")
            let mut r = smooth(op.func().unwrap(), x, kap, u);
            let n = x.v.abs().nil();
            // the absolute level applies to each DERIVATIVE; a part holds Taylor coefficients
            let mut fact = 1.0;
            let ones: Vec<DD> = (0..=x.v.shape.maxdeg)
                .map(|k| {
                    if k > 0 {
                        fact *= k as f64;
                    }
                    DD::f(1.0 / fact)
                })
                .collect();
            let s = n.apply(&ones);
            for i in 0..r.e.c.len() {
                let scale = if i == 0 { DD::ONE } else { s.c[i] };
                r.e.c[i] = r.e.c[i].add_dd(scale.mul_f(16.0 * u));
            }
            r
        }
        BesselJ0 | BesselJ1 | BesselJ2 => {
            // absolute scale (all derivatives of J_n are bounded by 1; the implementation
            // differentiates rational / asymptotic approximants): + kappa_k u sum |N^k|
            let mut r = smooth(op.func().unwrap(), x, kap, u);
            let n = x.v.abs().nil();
            // kappa_k bounds the error of the k-th DERIVATIVE; a part holds Taylor coefficients, so
            // the majorant is sum |N|^k / k!
            let mut fact = 1.0;
            let ones: Vec<DD> = (0..=x.v.shape.maxdeg)
                .map(|k| {
                    if k > 0 {
                        fact *= k as f64;
                    }
                    DD::f(1.0 / fact)
                })
                .collect();
            let s = n.apply(&ones);
            for (i, m) in x.v.shape.monos.iter().enumerate() {
                let k = (m.count_ones() as usize).min(BESSEL_ABS_KAPPA.len() - 1);
                let scale = if i == 0 { DD::ONE } else { s.c[i] };
                r.e.c[i] = r.e.c[i].add_dd(scale.mul_f(BESSEL_ABS_KAPPA[k] * u));
            }
            r
        }
        _ => {
            let f = op.func().unwrap_or_else(|| panic!("MACHINERY: no reference semantics for {op:?}"));
            smooth(f, x, kap, u)
        }
    }
}

/// absolute-scale constants per derivative order for the cylindrical Bessel functions
/// (DESIGN 2.5; measured on the pinned tree, the maxima sit at the branch point |x| = 5)
pub const BESSEL_ABS_KAPPA: [f64; 7] = [16.0, 32.0, 256.0, 8192.0, 65536.0, 65536.0, 65536.0];

/// Propagated error bound of the *defining expression* of a composite interface function,
/// evaluated at exact operands (E^def of DESIGN 2.5).  None for primitive operations.
pub fn defining_bound(op: Op, a: &[Val], u: f64) -> Option<Jet<DD>> {
    use Op::*;
    if std::env::var("VERIF_NO_COMPOSITE").is_ok() {
        // diagnosis only: shows what the composite rule grants (never set by a registered command)
        return None;
    }
    let op = op.canonical();
    let x = &a[0];
    if matches!(op, SphJ0 | SphJ1 | SphJ2) && x.v.re().abs_dd().hi < 1.0 {
        // for |x| < 1 the closed forms cancel (sph_j2(1e-8) evaluates to -1 through them): C15 measures
        // accuracy "against the magnitude of the true value plus the rounding level of a
        // well-conditioned evaluation", which the cancellation bound of the closed form is not;
        // the function is held to kappa u M plus the absolute level 16 u there
        return None;
    }
    let r = match op {
        Tan => {
            let s = smooth(Func::Sin, x, kappa(Sin), u);
            let c = smooth(Func::Cos, x, kappa(Cos), u);
            apply_ref(Div, &[s, c], u).e
        }
        Tanh => {
            let s = smooth(Func::Sinh, x, kappa(Sinh), u);
            let c = smooth(Func::Cosh, x, kappa(Cosh), u);
            apply_ref(Div, &[s, c], u).e
        }
        SphJ0 => {
            let s = smooth(Func::Sin, x, kappa(Sin), u);
            apply_ref(Div, &[s, x.clone()], u).e
        }
        SphJ1 => {
            // (s - x c) / x^2
            let s = smooth(Func::Sin, x, kappa(Sin), u);
            let c = smooth(Func::Cos, x, kappa(Cos), u);
            let xc = mul_val(x, &c, kappa(Mul), u);
            let num = add_val(&s, &xc, true, kappa(Sub), u);
            let den = mul_val(x, x, kappa(Mul), u);
            apply_ref(Div, &[num, den], u).e
        }
        SphJ2 => {
            // ((s - x c) 3 - x^2 s) / x^3
            let s = smooth(Func::Sin, x, kappa(Sin), u);
            let c = smooth(Func::Cos, x, kappa(Cos), u);
            let xc = mul_val(x, &c, kappa(Mul), u);
            let d = add_val(&s, &xc, true, kappa(Sub), u);
            let d3 = apply_ref(MulF(3.0), &[d], u);
            let x2 = mul_val(x, x, kappa(Mul), u);
            let x2s = mul_val(&x2, &s, kappa(Mul), u);
            let num = add_val(&d3, &x2s, true, kappa(Sub), u);
            let den = mul_val(&x2, x, kappa(Mul), u);
            apply_ref(Div, &[num, den], u).e
        }
        BesselJ2 => {
            // 2 J1 / x - J0 where that recurrence is well conditioned; for |x| < 1 it cancels (the
            // third derivative at 1e-5 is off by O(1) through it) and C14 asks for near machine
            // absolute accuracy, so the function is held to the absolute scale of J0 / J1 there
            if x.v.re().abs_dd().hi < 1.0 {
                return None;
            }
            let j1 = apply_ref(BesselJ1, a, u);
            let j0 = apply_ref(BesselJ0, a, u);
            let t = apply_ref(MulF(2.0), &[j1], u);
            let q = apply_ref(Div, &[t, x.clone()], u);
            add_val(&q, &j0, true, kappa(Sub), u).e
        }
        Atan2 => {
            // atan of the better-conditioned quotient
            let (y, x2) = (x, &a[1]);
            let (y0, x0) = (y.v.re().abs_dd(), x2.v.re().abs_dd());
            if x0.is_zero() || y0.is_zero() {
                return None;
            }
            let q = if y0.le(x0) { apply_ref(Div, &[y.clone(), x2.clone()], u) } else { apply_ref(Div, &[x2.clone(), y.clone()], u) };
            smooth(Func::Atan, &q, kappa(Atan), u).e
        }
        _ => return None,
    };
    Some(r)
}

// ---------------------------------------------------------------------------------------------
// exact semantics (C02, C07, C08)

pub fn apply_exact<S: Scalar>(op: Op, a: &[Jet<S>], tay: &dyn Fn(Func, &S, usize) -> Vec<S>) -> Jet<S> {
    use Op::*;
    let op = op.canonical();
    let x = &a[0];
    let k = x.shape.maxdeg;
    match op {
        Add => x.add(&a[1]),
        Sub => x.sub(&a[1]),
        Neg => x.neg(),
        Mul => x.mul(&a[1]),
        Div => x.mul(&a[1].apply(&tay(Func::Recip, a[1].re(), k))),
        Recip | Inv => x.apply(&tay(Func::Recip, x.re(), k)),
        Powi(n) => x.apply(&tay(Func::Powi(n as i64), x.re(), k)),
        AddF(s) => x.add_re(&S::from_f64(s)),
        SubF(s) => x.add_re(&S::from_f64(-s)),
        MulF(s) => x.scale(&S::from_f64(s)),
        DivF(s) => x.scale(&S::one().div(&S::from_f64(s))),
        MulAdd => x.mul(&a[1]).add(&a[2]),
        Sum(_) => {
            let mut acc = Jet::zero(&x.shape);
            for y in a {
                acc = acc.add(y);
            }
            acc
        }
        Product(_) => {
            let mut acc = Jet::constant(&x.shape, S::one());
            for y in a {
                acc = acc.mul(y);
            }
            acc
        }
        Abs => {
            if x.re().to_f64_approx() >= 0.0 {
                x.clone()
            } else {
                x.neg()
            }
        }
        _ => panic!("MACHINERY: {op:?} has no exact semantics"),
    }
}

pub fn tay_exact(f: Func, a0: &Exact, k: usize) -> Vec<Exact> {
    taylor_exact(f, *a0, k)
}

/// bit-budget Taylor coefficients for the rational functions at power-of-two (recip, negative
/// powers) or arbitrary (non-negative powers) real parts
pub fn tay_bits(f: Func, a0: &refmodel::Bits, k: usize) -> Vec<refmodel::Bits> {
    use refmodel::Bits;
    // c_k = binom-like integer * a0^(p-k): bound the integer factor by 2^(|p|+k) generously
    let p = match f {
        Func::Recip => -1i64,
        Func::Powi(p) => p,
        Func::Id => 1,
        _ => panic!("MACHINERY: no bit budget for {f:?}"),
    };
    (0..=k)
        .map(|i| {
            let e = p - i as i64;
            if p >= 0 && e < 0 {
                return Bits::zero();
            }
            let int_bits = (p.unsigned_abs() as i32 + i as i32).min(40);
            let mut b = Bits { zero: false, hi: int_bits, lo: 0 };
            if !a0.zero {
                let pw = if e >= 0 {
                    Bits { zero: false, hi: a0.hi * e as i32, lo: a0.lo * e as i32 }
                } else {
                    assert!(a0.hi - a0.lo == 1, "MACHINERY: bit budget of a negative power of a non power of two");
                    Bits { zero: false, hi: a0.lo * e as i32 + 1, lo: a0.lo * e as i32 }
                };
                b = b.mul(&pw);
            } else if e > 0 {
                return Bits::zero();
            }
            b
        })
        .collect()
}
