//! Binding of the real num-dual types to the reference algebra: every type is a *layout*
//! (slot <-> monomials) on the one algebra of refmodel.  Nothing in here re-implements a product,
//! quotient or chain rule.

pub mod layout;
pub mod ops;
pub mod program;
pub mod universe;

pub use layout::*;
pub use ops::*;
pub use program::*;
pub use universe::*;
