//! The type universe (DESIGN 2.4) as a generic visitor.

use crate::layout::{Dims, Flt, Subject};
use nalgebra::{Const, Dyn};
use num_dual::*;

pub trait Visitor {
    fn visit<F: Flt, D: Subject<F>>(&mut self, d: Dims);
}

/// Visitor for operations that need `Copy` f64 types (BesselDual)
pub trait VisitorCopy {
    fn visit<D: Subject<f64> + Copy>(&mut self, d: Dims);
}

#[derive(Clone, Copy, Debug, PartialEq, Eq, PartialOrd, Ord)]
pub enum Tier {
    Quick,
    Thorough,
}

macro_rules! scalars {
    ($v:ident, $f:ty) => {
        $v.visit::<$f, Dual<$f, $f>>(Dims::NONE);
        $v.visit::<$f, Dual2<$f, $f>>(Dims::NONE);
        $v.visit::<$f, Dual3<$f, $f>>(Dims::NONE);
        $v.visit::<$f, HyperDual<$f, $f>>(Dims::NONE);
        $v.visit::<$f, HyperHyperDual<$f, $f>>(Dims::NONE);
    };
}

/// scalar types over both widths
pub fn scalar_types(v: &mut impl Visitor) {
    scalars!(v, f64);
    scalars!(v, f32);
}

/// static vector types
pub fn static_vector_types(tier: Tier, v: &mut impl Visitor) {
    v.visit::<f64, DualVec<f64, f64, Const<1>>>(Dims::n(1));
    v.visit::<f64, DualVec<f64, f64, Const<2>>>(Dims::n(2));
    v.visit::<f64, DualVec<f64, f64, Const<3>>>(Dims::n(3));
    v.visit::<f64, Dual2Vec<f64, f64, Const<1>>>(Dims::n(1));
    v.visit::<f64, Dual2Vec<f64, f64, Const<2>>>(Dims::n(2));
    v.visit::<f64, HyperDualVec<f64, f64, Const<1>, Const<1>>>(Dims::mn(1, 1));
    v.visit::<f64, HyperDualVec<f64, f64, Const<1>, Const<2>>>(Dims::mn(1, 2));
    v.visit::<f64, HyperDualVec<f64, f64, Const<2>, Const<1>>>(Dims::mn(2, 1));
    v.visit::<f64, HyperDualVec<f64, f64, Const<2>, Const<2>>>(Dims::mn(2, 2));
    v.visit::<f32, DualVec<f32, f32, Const<2>>>(Dims::n(2));
    v.visit::<f32, Dual2Vec<f32, f32, Const<2>>>(Dims::n(2));
    v.visit::<f32, HyperDualVec<f32, f32, Const<2>, Const<2>>>(Dims::mn(2, 2));
    if tier == Tier::Thorough {
        v.visit::<f64, Dual2Vec<f64, f64, Const<3>>>(Dims::n(3));
        v.visit::<f64, DualVec<f64, f64, Const<4>>>(Dims::n(4));
        v.visit::<f64, DualVec<f64, f64, Const<6>>>(Dims::n(6));
        v.visit::<f64, HyperDualVec<f64, f64, Const<2>, Const<3>>>(Dims::mn(2, 3));
        v.visit::<f64, HyperDualVec<f64, f64, Const<3>, Const<2>>>(Dims::mn(3, 2));
        v.visit::<f64, HyperDualVec<f64, f64, Const<3>, Const<3>>>(Dims::mn(3, 3));
        v.visit::<f64, HyperDualVec<f64, f64, Const<1>, Const<6>>>(Dims::mn(1, 6));
        v.visit::<f64, HyperDualVec<f64, f64, Const<6>, Const<1>>>(Dims::mn(6, 1));
    }
}

/// dynamic vector types for the given lengths
pub fn dynamic_vector_types(lens: &[usize], v: &mut impl Visitor) {
    for &n in lens {
        v.visit::<f64, DualVec<f64, f64, Dyn>>(Dims::n(n));
        v.visit::<f64, Dual2Vec<f64, f64, Dyn>>(Dims::n(n));
        v.visit::<f32, DualVec<f32, f32, Dyn>>(Dims::n(n));
    }
    for &m in lens {
        for &n in lens {
            v.visit::<f64, HyperDualVec<f64, f64, Dyn, Dyn>>(Dims::mn(m, n));
        }
    }
    for &n in lens.iter().take(3) {
        v.visit::<f32, Dual2Vec<f32, f32, Dyn>>(Dims::n(n));
        v.visit::<f32, HyperDualVec<f32, f32, Dyn, Dyn>>(Dims::mn(n, n));
    }
}

/// nested types
pub fn nested_types(tier: Tier, v: &mut impl Visitor) {
    v.visit::<f64, Dual<Dual64, f64>>(Dims::NONE);
    v.visit::<f64, Dual2<Dual64, f64>>(Dims::NONE);
    v.visit::<f64, Dual<Dual2_64, f64>>(Dims::NONE);
    v.visit::<f64, HyperDual<Dual64, f64>>(Dims::NONE);
    v.visit::<f64, DualVec<Dual64, f64, Const<2>>>(Dims::n(2));
    v.visit::<f32, Dual<Dual32, f32>>(Dims::NONE);
    v.visit::<f64, Dual3<Dual64, f64>>(Dims::NONE);
    v.visit::<f64, HyperHyperDual<Dual64, f64>>(Dims::NONE);
    // every vector type over a dual inner type (the BLAS-style nalgebra kernels skip a term whose
    // scalar factor `is_zero`, which for a dual number looks at the real part only)
    v.visit::<f64, Dual2Vec<Dual64, f64, Const<2>>>(Dims::n(2));
    v.visit::<f64, HyperDualVec<Dual64, f64, Const<2>, Const<2>>>(Dims::mn(2, 2));
    // two levels of nesting
    v.visit::<f64, Dual<Dual<Dual64, f64>, f64>>(Dims::NONE);
    if tier == Tier::Thorough {
        v.visit::<f64, Dual2<Dual2_64, f64>>(Dims::NONE);
        v.visit::<f64, Dual<Dual3_64, f64>>(Dims::NONE);
        v.visit::<f64, Dual<DualSVec64<2>, f64>>(Dims::n(2));
        v.visit::<f32, Dual2<Dual32, f32>>(Dims::NONE);
    }
}

/// one larger size of each vector type (loops unrolled or specialised for small sizes, chunked loops
/// with a remainder, M != N both above 2); visited by the tolerance-based checks that can afford it
pub fn larger_vector_types(v: &mut impl Visitor) {
    v.visit::<f64, DualVec<f64, f64, Const<5>>>(Dims::n(5));
    v.visit::<f64, Dual2Vec<f64, f64, Const<4>>>(Dims::n(4));
    v.visit::<f64, HyperDualVec<f64, f64, Const<3>, Const<4>>>(Dims::mn(3, 4));
    v.visit::<f64, DualVec<f64, f64, Dyn>>(Dims::n(7));
    v.visit::<f64, Dual2Vec<f64, f64, Dyn>>(Dims::n(5));
    v.visit::<f64, HyperDualVec<f64, f64, Dyn, Dyn>>(Dims::mn(4, 3));
    v.visit::<f32, DualVec<f32, f32, Dyn>>(Dims::n(6));
}

pub fn whole_universe(tier: Tier, v: &mut impl Visitor) {
    scalar_types(v);
    static_vector_types(tier, v);
    let lens: &[usize] = if tier == Tier::Thorough { &[0, 1, 2, 3, 4] } else { &[0, 1, 2] };
    dynamic_vector_types(lens, v);

    nested_types(tier, v);
}

/// f64 `Copy` types for the Bessel functions
pub fn copy64_types(tier: Tier, v: &mut impl VisitorCopy) {
    v.visit::<Dual64>(Dims::NONE);
    v.visit::<Dual2_64>(Dims::NONE);
    v.visit::<Dual3_64>(Dims::NONE);
    v.visit::<HyperDual64>(Dims::NONE);
    v.visit::<HyperHyperDual64>(Dims::NONE);
    v.visit::<DualSVec64<2>>(Dims::n(2));
    v.visit::<Dual2SVec64<2>>(Dims::n(2));
    v.visit::<HyperDualSVec64<2, 2>>(Dims::mn(2, 2));
    v.visit::<Dual2<Dual2_64, f64>>(Dims::NONE);
    v.visit::<HyperDual<Dual64, f64>>(Dims::NONE);
    // every scalar type also as the OUTER level of a nesting (its chain rule and quotient rule then
    // run over a dual inner type: slips that fold the inner number to its real part only show here)
    v.visit::<Dual<Dual64, f64>>(Dims::NONE);
    v.visit::<Dual<Dual2_64, f64>>(Dims::NONE);
    v.visit::<Dual3<Dual64, f64>>(Dims::NONE);
    if tier == Tier::Thorough {
        v.visit::<Dual<Dual3_64, f64>>(Dims::NONE);
        v.visit::<HyperHyperDual<Dual64, f64>>(Dims::NONE);
        v.visit::<Dual<Dual<Dual64, f64>, f64>>(Dims::NONE);
    }
}

/// fourth-order nestings (used by the checks of functions with small-argument series)
pub fn fourth_order_types(v: &mut impl Visitor) {
    v.visit::<f64, Dual2<Dual2_64, f64>>(Dims::NONE);
    v.visit::<f64, Dual3<Dual64, f64>>(Dims::NONE);
    v.visit::<f64, Dual<Dual3_64, f64>>(Dims::NONE);
}
