//! Straight-line programs over the operation alphabet, executed on the real types and in the
//! reference algebra with first-order error propagation.

use crate::layout::Flt;
use crate::ops::*;
use num_dual::DualNum;

#[derive(Clone, Debug, PartialEq)]
pub struct Step {
    pub op: Op,
    /// register indices (inputs first, then step results in order)
    pub args: Vec<usize>,
}

#[derive(Clone, Debug, PartialEq)]
pub struct Program {
    pub n_inputs: usize,
    pub steps: Vec<Step>,
}

impl Program {
    pub fn describe(&self) -> String {
        let mut s = String::new();
        for (k, st) in self.steps.iter().enumerate() {
            if k > 0 {
                s.push_str("; ");
            }
            let args: Vec<String> = st.args.iter().map(|a| format!("r{a}")).collect();
            s.push_str(&format!("r{} = {}({})", self.n_inputs + k, st.op.name(), args.join(",")));
        }
        s
    }
    pub fn run_impl<F: Flt, D: DualNum<F>>(&self, inputs: &[D]) -> D {
        let mut regs: Vec<D> = inputs.to_vec();
        for st in &self.steps {
            let a: Vec<D> = st.args.iter().map(|i| regs[*i].clone()).collect();
            regs.push(apply_impl::<F, D>(st.op, &a));
        }
        regs.pop().expect("MACHINERY: empty program")
    }
    /// None if some intermediate real part leaves the (margin-shrunk) domain of its operation
    pub fn run_ref(&self, inputs: &[Val], u: f64, margin: f64) -> Option<Val> {
        let mut regs: Vec<Val> = inputs.to_vec();
        for st in &self.steps {
            let a: Vec<Val> = st.args.iter().map(|i| regs[*i].clone()).collect();
            let re: Vec<f64> = a.iter().map(|v| v.v.re().to_f64()).collect();
            if !in_domain_margin(st.op, &re, margin) {
                return None;
            }
            if matches!(st.op, Op::SphJ0 | Op::SphJ1 | Op::SphJ2) {
                // sixth powers of the argument must be representable (see harness::bfs)
                let lim = if u > 1e-10 { 1e6 } else { 1e50 };
                if a[0].v.c.iter().any(|c| c.hi.abs() > lim) {
                    return None;
                }
            }
            let mut r = apply_ref(st.op, &a, u);
            // composite interface functions: + propagated bound of their defining expression
            if let Some(x) = defining_bound(st.op, &a, u) {
                if x.c.iter().all(|c| c.is_finite()) {
                    r.e = r.e.add(&x);
                }
            }
            if !r.v.c.iter().all(|c| c.is_finite()) || !r.e.c.iter().all(|c| c.is_finite()) {
                return None;
            }
            // keep magnitudes moderate so that overflow/underflow never decides a verdict
            let (lo, hi) = if u > 1e-10 { (1e-12, 1e12) } else { (1e-100, 1e100) };
            if r.v.c.iter().any(|c| !(c.hi == 0.0 && c.lo == 0.0) && (c.hi.abs() > hi || c.hi.abs() < lo)) {
                return None;
            }
            regs.push(r);
        }
        regs.pop()
    }
}

/// domain with a safety margin from singularities / branch points
pub fn in_domain_margin(op: Op, re: &[f64], m: f64) -> bool {
    use Op::*;
    let x = re[0];
    match op {
        Recip | Inv | Cbrt => x.abs() > m,
        Sqrt | Ln | Log(_) | Log2 | Log10 => x > m,
        Ln1p => x > -1.0 + m,
        Asin | Acos | Atanh => x.abs() < 1.0 - m,
        Acosh => x > 1.0 + m,
        Tan => x.cos().abs() > m,
        Powi(n) => (n >= 0 || x.abs() > m) && (x == 0.0 || (n as f64 * x.abs().ln()).abs() < 80.0),
        // powers: positive base, and a result well inside the float range (|p ln x| moderate)
        Powf(p) => x > m && (p * x.ln()).abs() < 80.0,
        Powd => x > m && (re[1] * x.ln()).abs() < 80.0,
        Div | DivA | DivRef => re[1].abs() > m,
        DivF(f) | DivAF(f) => f != 0.0,
        Atan2 => re[0].abs() > m && re[1].abs() > m,
        Abs | Signum => x.abs() > m,
        AbsSub => (re[0] - re[1]).abs() > m,
        Exp | Exp2 | ExpM1 | Sinh | Cosh => x.abs() < 40.0,
        _ => true,
    }
}
