use nalgebra::allocator::Allocator;
use nalgebra::{Const, DefaultAllocator, Dim, Dyn, OMatrix, U1};
use num_dual::*;
use refmodel::{Jet, Scalar, Shape};
use std::sync::Arc;

/// The two float widths.
pub trait Flt: DualNumFloat + DualNum<Self, Inner = Self> + Copy + Default + PartialOrd + Send + Sync + 'static {
    /// unit roundoff
    const U: f64;
    /// precision in bits
    const PREC: i32;
    const NAME: &'static str;
    /// smallest positive (denormal) value
    const TINY: f64;
    fn to64(self) -> f64;
    fn from64(x: f64) -> Self;
    fn bits(self) -> u64;
    fn from_bits64(b: u64) -> Self;
}
impl Flt for f64 {
    const U: f64 = 1.1102230246251565e-16;
    const PREC: i32 = 53;
    const NAME: &'static str = "f64";
    const TINY: f64 = 5e-324;
    fn to64(self) -> f64 {
        self
    }
    fn from64(x: f64) -> Self {
        x
    }
    fn bits(self) -> u64 {
        self.to_bits()
    }
    fn from_bits64(b: u64) -> Self {
        f64::from_bits(b)
    }
}
impl Flt for f32 {
    const U: f64 = 5.960464477539063e-8;
    const PREC: i32 = 24;
    const NAME: &'static str = "f32";
    const TINY: f64 = 1.401298464324817e-45;
    fn to64(self) -> f64 {
        self as f64
    }
    fn from64(x: f64) -> Self {
        x as f32
    }
    fn bits(self) -> u64 {
        self.to_bits() as u64
    }
    fn from_bits64(b: u64) -> Self {
        f32::from_bits(b as u32)
    }
}

/// runtime dimensions of the (single) vector level of a type; ignored by scalar types, must match
/// the const parameters of statically sized types
#[derive(Clone, Copy, Debug, PartialEq, Eq, Hash)]
pub struct Dims {
    pub m: usize,
    pub n: usize,
}
impl Dims {
    pub const NONE: Dims = Dims { m: 0, n: 0 };
    pub fn n(n: usize) -> Dims {
        Dims { m: n, n }
    }
    pub fn mn(m: usize, n: usize) -> Dims {
        Dims { m, n }
    }
}

#[derive(Clone, Debug)]
pub struct Slot {
    /// path of the float inside the value, e.g. `v1[0].eps`
    pub name: String,
    /// the monomials this float is the coefficient of (several for the symmetric embeddings)
    pub monos: Vec<u32>,
    /// optional-part groups governing this slot (all must be present)
    pub groups: Vec<usize>,
}

#[derive(Clone, Debug)]
pub struct RawLayout {
    pub ngen: u32,
    pub slots: Vec<Slot>,
    pub group_names: Vec<String>,
}

#[derive(Clone, Debug)]
pub struct Layout {
    pub type_name: String,
    pub ngen: u32,
    pub slots: Vec<Slot>,
    pub group_names: Vec<String>,
    pub shape: Arc<Shape>,
    /// order of the highest derivative (largest monomial)
    pub order: usize,
}

impl Layout {
    pub fn nslots(&self) -> usize {
        self.slots.len()
    }
    pub fn ngroups(&self) -> usize {
        self.group_names.len()
    }
    /// degree (size) of the monomials of slot i
    pub fn slot_degree(&self, i: usize) -> usize {
        self.slots[i].monos[0].count_ones() as usize
    }
}

#[derive(Clone, Debug, PartialEq)]
pub struct Parts<F> {
    pub vals: Vec<F>,
    pub present: Vec<bool>,
}

impl<F: Flt> Parts<F> {
    pub fn slot_present(&self, l: &Layout, i: usize) -> bool {
        l.slots[i].groups.iter().all(|g| self.present[*g])
    }
    /// value of slot i under the abstraction absent -> zero
    pub fn alpha(&self, l: &Layout, i: usize) -> F {
        if self.slot_present(l, i) {
            self.vals[i]
        } else {
            F::zero()
        }
    }
    pub fn to_jet<S: Scalar>(&self, l: &Layout) -> Jet<S> {
        let mut j = Jet::zero(&l.shape);
        for (i, s) in l.slots.iter().enumerate() {
            let v = S::from_f64(self.alpha(l, i).to64());
            for m in &s.monos {
                j.set(*m, v.clone());
            }
        }
        j
    }
    pub fn bits(&self) -> Vec<u64> {
        self.vals.iter().map(|v| v.bits()).collect()
    }
    pub fn all_present(l: &Layout, vals: Vec<F>) -> Self {
        Parts { vals, present: vec![true; l.ngroups()] }
    }
}

pub trait Subject<F: Flt>: DualNum<F> + Clone + Send + Sync {
    fn type_name(d: Dims) -> String;
    fn raw_layout(d: Dims) -> RawLayout;
    fn write(d: Dims, vals: &mut dyn Iterator<Item = F>, present: &mut dyn Iterator<Item = bool>) -> Self;
    fn read(&self, d: Dims, vals: &mut Vec<F>, present: &mut Vec<bool>);

    fn layout(d: Dims) -> Layout {
        let raw = Self::raw_layout(d);
        let monos: Vec<u32> = raw.slots.iter().flat_map(|s| s.monos.iter().copied()).collect();
        let shape = Shape::new(monos);
        let order = shape.maxdeg;
        Layout { type_name: Self::type_name(d), ngen: raw.ngen, slots: raw.slots, group_names: raw.group_names, shape, order }
    }
    fn build(d: Dims, p: &Parts<F>) -> Self {
        let mut v = p.vals.iter().copied();
        let mut pr = p.present.iter().copied();
        let r = Self::write(d, &mut v, &mut pr);
        assert!(v.next().is_none() && pr.next().is_none(), "MACHINERY: layout/write mismatch");
        r
    }
    fn parts(&self, d: Dims) -> Parts<F> {
        let mut vals = Vec::new();
        let mut present = Vec::new();
        self.read(d, &mut vals, &mut present);
        Parts { vals, present }
    }
}

// ------------------------------------------------------------------------------------------------
// base floats

macro_rules! subject_float {
    ($f:ty) => {
        impl Subject<$f> for $f {
            fn type_name(_: Dims) -> String {
                stringify!($f).into()
            }
            fn raw_layout(_: Dims) -> RawLayout {
                RawLayout { ngen: 0, slots: vec![Slot { name: String::new(), monos: vec![0], groups: vec![] }], group_names: vec![] }
            }
            fn write(_: Dims, vals: &mut dyn Iterator<Item = $f>, _: &mut dyn Iterator<Item = bool>) -> Self {
                vals.next().expect("MACHINERY: not enough slot values")
            }
            fn read(&self, _: Dims, vals: &mut Vec<$f>, _: &mut Vec<bool>) {
                vals.push(*self)
            }
        }
    };
}
subject_float!(f32);
subject_float!(f64);

// ------------------------------------------------------------------------------------------------
// composition helper

/// One field of an outer type: name, number of elements, monomials per element over the OUTER
/// generators (bit i = outer generator i), optional group name.
pub struct Field {
    pub name: &'static str,
    /// per element: (index label, outer monomials)
    pub elems: Vec<(String, Vec<u32>)>,
    pub optional: bool,
}

pub fn compose(inner: &RawLayout, n_outer_gen: u32, fields: &[Field]) -> RawLayout {
    let sh = inner.ngen;
    let mut slots = Vec::new();
    let mut group_names = Vec::new();
    for f in fields {
        let outer_group = if f.optional {
            group_names.push(f.name.to_string());
            Some(group_names.len() - 1)
        } else {
            None
        };
        for (label, monos) in &f.elems {
            let base = group_names.len();
            let fname = format!("{}{}", f.name, label);
            for gn in &inner.group_names {
                group_names.push(format!("{fname}.{gn}"));
            }
            for s in &inner.slots {
                let name = if s.name.is_empty() { fname.clone() } else { format!("{fname}.{}", s.name) };
                let mut ms = Vec::new();
                for om in monos {
                    for im in &s.monos {
                        ms.push((om << sh) | im);
                    }
                }
                let mut groups: Vec<usize> = outer_group.into_iter().collect();
                groups.extend(s.groups.iter().map(|g| g + base));
                slots.push(Slot { name, monos: ms, groups });
            }
        }
    }
    RawLayout { ngen: inner.ngen + n_outer_gen, slots, group_names }
}

fn scalar_field(name: &'static str, monos: Vec<u32>) -> Field {
    Field { name, elems: vec![(String::new(), monos)], optional: false }
}

fn skip_read<F: Flt, T: Subject<F>>(d: Dims, count: usize, vals: &mut Vec<F>, present: &mut Vec<bool>) {
    let l = T::raw_layout(d);
    for _ in 0..count {
        for _ in 0..l.slots.len() {
            vals.push(F::zero());
        }
        for _ in 0..l.group_names.len() {
            present.push(true);
        }
    }
}

// ------------------------------------------------------------------------------------------------
// scalar types

impl<F: Flt, T: Subject<F>> Subject<F> for Dual<T, F> {
    fn type_name(d: Dims) -> String {
        format!("Dual<{}>", T::type_name(d))
    }
    fn raw_layout(d: Dims) -> RawLayout {
        compose(&T::raw_layout(d), 1, &[scalar_field("re", vec![0]), scalar_field("eps", vec![1])])
    }
    fn write(d: Dims, v: &mut dyn Iterator<Item = F>, p: &mut dyn Iterator<Item = bool>) -> Self {
        let re = T::write(d, v, p);
        let eps = T::write(d, v, p);
        Dual::new(re, eps)
    }
    fn read(&self, d: Dims, v: &mut Vec<F>, p: &mut Vec<bool>) {
        self.re.read(d, v, p);
        self.eps.read(d, v, p);
    }
}

impl<F: Flt, T: Subject<F>> Subject<F> for Dual2<T, F> {
    fn type_name(d: Dims) -> String {
        format!("Dual2<{}>", T::type_name(d))
    }
    fn raw_layout(d: Dims) -> RawLayout {
        // generators a (bit 0), b (bit 1); symmetric embedding
        compose(
            &T::raw_layout(d),
            2,
            &[scalar_field("re", vec![0]), scalar_field("v1", vec![1, 2]), scalar_field("v2", vec![3])],
        )
    }
    fn write(d: Dims, v: &mut dyn Iterator<Item = F>, p: &mut dyn Iterator<Item = bool>) -> Self {
        let re = T::write(d, v, p);
        let v1 = T::write(d, v, p);
        let v2 = T::write(d, v, p);
        Dual2::new(re, v1, v2)
    }
    fn read(&self, d: Dims, v: &mut Vec<F>, p: &mut Vec<bool>) {
        self.re.read(d, v, p);
        self.v1.read(d, v, p);
        self.v2.read(d, v, p);
    }
}

impl<F: Flt, T: Subject<F>> Subject<F> for Dual3<T, F> {
    fn type_name(d: Dims) -> String {
        format!("Dual3<{}>", T::type_name(d))
    }
    fn raw_layout(d: Dims) -> RawLayout {
        compose(
            &T::raw_layout(d),
            3,
            &[
                scalar_field("re", vec![0]),
                scalar_field("v1", vec![1, 2, 4]),
                scalar_field("v2", vec![3, 5, 6]),
                scalar_field("v3", vec![7]),
            ],
        )
    }
    fn write(d: Dims, v: &mut dyn Iterator<Item = F>, p: &mut dyn Iterator<Item = bool>) -> Self {
        let re = T::write(d, v, p);
        let v1 = T::write(d, v, p);
        let v2 = T::write(d, v, p);
        let v3 = T::write(d, v, p);
        Dual3::new(re, v1, v2, v3)
    }
    fn read(&self, d: Dims, v: &mut Vec<F>, p: &mut Vec<bool>) {
        self.re.read(d, v, p);
        self.v1.read(d, v, p);
        self.v2.read(d, v, p);
        self.v3.read(d, v, p);
    }
}

impl<F: Flt, T: Subject<F>> Subject<F> for HyperDual<T, F> {
    fn type_name(d: Dims) -> String {
        format!("HyperDual<{}>", T::type_name(d))
    }
    fn raw_layout(d: Dims) -> RawLayout {
        compose(
            &T::raw_layout(d),
            2,
            &[
                scalar_field("re", vec![0]),
                scalar_field("eps1", vec![1]),
                scalar_field("eps2", vec![2]),
                scalar_field("eps1eps2", vec![3]),
            ],
        )
    }
    fn write(d: Dims, v: &mut dyn Iterator<Item = F>, p: &mut dyn Iterator<Item = bool>) -> Self {
        let re = T::write(d, v, p);
        let e1 = T::write(d, v, p);
        let e2 = T::write(d, v, p);
        let e12 = T::write(d, v, p);
        HyperDual::new(re, e1, e2, e12)
    }
    fn read(&self, d: Dims, v: &mut Vec<F>, p: &mut Vec<bool>) {
        self.re.read(d, v, p);
        self.eps1.read(d, v, p);
        self.eps2.read(d, v, p);
        self.eps1eps2.read(d, v, p);
    }
}

impl<F: Flt, T: Subject<F>> Subject<F> for HyperHyperDual<T, F> {
    fn type_name(d: Dims) -> String {
        format!("HyperHyperDual<{}>", T::type_name(d))
    }
    fn raw_layout(d: Dims) -> RawLayout {
        compose(
            &T::raw_layout(d),
            3,
            &[
                scalar_field("re", vec![0]),
                scalar_field("eps1", vec![1]),
                scalar_field("eps2", vec![2]),
                scalar_field("eps3", vec![4]),
                scalar_field("eps1eps2", vec![3]),
                scalar_field("eps1eps3", vec![5]),
                scalar_field("eps2eps3", vec![6]),
                scalar_field("eps1eps2eps3", vec![7]),
            ],
        )
    }
    fn write(d: Dims, v: &mut dyn Iterator<Item = F>, p: &mut dyn Iterator<Item = bool>) -> Self {
        let re = T::write(d, v, p);
        let e1 = T::write(d, v, p);
        let e2 = T::write(d, v, p);
        let e3 = T::write(d, v, p);
        let e12 = T::write(d, v, p);
        let e13 = T::write(d, v, p);
        let e23 = T::write(d, v, p);
        let e123 = T::write(d, v, p);
        HyperHyperDual::new(re, e1, e2, e3, e12, e13, e23, e123)
    }
    fn read(&self, d: Dims, v: &mut Vec<F>, p: &mut Vec<bool>) {
        self.re.read(d, v, p);
        self.eps1.read(d, v, p);
        self.eps2.read(d, v, p);
        self.eps3.read(d, v, p);
        self.eps1eps2.read(d, v, p);
        self.eps1eps3.read(d, v, p);
        self.eps2eps3.read(d, v, p);
        self.eps1eps2eps3.read(d, v, p);
    }
}

// ------------------------------------------------------------------------------------------------
// vector types

pub trait DimX: Dim {
    fn make(n: usize) -> Self;
    fn tag(n: usize) -> String;
}
impl DimX for Dyn {
    fn make(n: usize) -> Self {
        Dyn(n)
    }
    fn tag(n: usize) -> String {
        format!("Dyn({n})")
    }
}
impl<const N: usize> DimX for Const<N> {
    fn make(n: usize) -> Self {
        assert_eq!(n, N, "MACHINERY: static dimension mismatch");
        Const::<N>
    }
    fn tag(n: usize) -> String {
        format!("{n}")
    }
}

fn write_matrix<F: Flt, T: Subject<F>, R: DimX, C: DimX>(
    d: Dims,
    r: usize,
    c: usize,
    v: &mut dyn Iterator<Item = F>,
    p: &mut dyn Iterator<Item = bool>,
) -> Derivative<T, F, R, C>
where
    DefaultAllocator: Allocator<R, C>,
{
    let here = p.next().expect("MACHINERY: not enough presence flags");
    // element order: row-major over (i, j) as listed in the layout
    let mut elems: Vec<T> = Vec::with_capacity(r * c);
    for _ in 0..r * c {
        elems.push(T::write(d, v, p));
    }
    if here {
        let m = OMatrix::<T, R, C>::from_fn_generic(R::make(r), C::make(c), |i, j| elems[i * c + j].clone());
        Derivative::some(m)
    } else {
        Derivative::none()
    }
}

fn read_matrix<F: Flt, T: Subject<F>, R: DimX, C: DimX>(
    x: &Derivative<T, F, R, C>,
    d: Dims,
    r: usize,
    c: usize,
    v: &mut Vec<F>,
    p: &mut Vec<bool>,
) where
    DefaultAllocator: Allocator<R, C>,
{
    // presence is observed through the public API only: compare with Derivative::none()
    let absent = *x == Derivative::none();
    p.push(!absent);
    if absent {
        skip_read::<F, T>(d, r * c, v, p);
    } else {
        let m = x.clone().unwrap_generic(R::make(r), C::make(c));
        assert_eq!(m.shape(), (r, c), "SHAPE: derivative part has shape {:?}, expected {:?}", m.shape(), (r, c));
        for i in 0..r {
            for j in 0..c {
                m[(i, j)].read(d, v, p);
            }
        }
    }
}

impl<F: Flt, T: Subject<F>, D: DimX> Subject<F> for DualVec<T, F, D>
where
    DefaultAllocator: Allocator<D> + Allocator<U1, D> + Allocator<D, D>,
    DualVec<T, F, D>: DualNum<F> + Send + Sync,
{
    fn type_name(d: Dims) -> String {
        format!("DualVec<{},{}>", T::type_name(d), D::tag(d.n))
    }
    fn raw_layout(d: Dims) -> RawLayout {
        let n = d.n;
        compose(
            &T::raw_layout(d),
            n as u32,
            &[
                scalar_field("re", vec![0]),
                Field { name: "eps", elems: (0..n).map(|i| (format!("[{i}]"), vec![1u32 << i])).collect(), optional: true },
            ],
        )
    }
    fn write(d: Dims, v: &mut dyn Iterator<Item = F>, p: &mut dyn Iterator<Item = bool>) -> Self {
        let re = T::write(d, v, p);
        let eps = write_matrix::<F, T, D, U1>(d, d.n, 1, v, p);
        DualVec::new(re, eps)
    }
    fn read(&self, d: Dims, v: &mut Vec<F>, p: &mut Vec<bool>) {
        self.re.read(d, v, p);
        read_matrix(&self.eps, d, d.n, 1, v, p);
    }
}

impl<F: Flt, T: Subject<F>, D: DimX> Subject<F> for Dual2Vec<T, F, D>
where
    DefaultAllocator: Allocator<D> + Allocator<U1, D> + Allocator<D, D>,
    Dual2Vec<T, F, D>: DualNum<F> + Send + Sync,
{
    fn type_name(d: Dims) -> String {
        format!("Dual2Vec<{},{}>", T::type_name(d), D::tag(d.n))
    }
    fn raw_layout(d: Dims) -> RawLayout {
        let n = d.n;
        // generators a_i = bit i, b_j = bit n + j
        let mut v2 = Vec::new();
        for i in 0..n {
            for j in 0..n {
                v2.push((format!("[({i},{j})]"), vec![(1u32 << i) | (1u32 << (n + j))]));
            }
        }
        compose(
            &T::raw_layout(d),
            2 * n as u32,
            &[
                scalar_field("re", vec![0]),
                Field { name: "v1", elems: (0..n).map(|i| (format!("[{i}]"), vec![1u32 << i, 1u32 << (n + i)])).collect(), optional: true },
                Field { name: "v2", elems: v2, optional: true },
            ],
        )
    }
    fn write(d: Dims, v: &mut dyn Iterator<Item = F>, p: &mut dyn Iterator<Item = bool>) -> Self {
        let re = T::write(d, v, p);
        let v1 = write_matrix::<F, T, U1, D>(d, 1, d.n, v, p);
        let v2 = write_matrix::<F, T, D, D>(d, d.n, d.n, v, p);
        Dual2Vec::new(re, v1, v2)
    }
    fn read(&self, d: Dims, v: &mut Vec<F>, p: &mut Vec<bool>) {
        self.re.read(d, v, p);
        read_matrix(&self.v1, d, 1, d.n, v, p);
        read_matrix(&self.v2, d, d.n, d.n, v, p);
    }
}

impl<F: Flt, T: Subject<F>, M: DimX, N: DimX> Subject<F> for HyperDualVec<T, F, M, N>
where
    DefaultAllocator: Allocator<M> + Allocator<M, N> + Allocator<U1, N>,
    HyperDualVec<T, F, M, N>: DualNum<F> + Send + Sync,
{
    fn type_name(d: Dims) -> String {
        format!("HyperDualVec<{},{},{}>", T::type_name(d), M::tag(d.m), N::tag(d.n))
    }
    fn raw_layout(d: Dims) -> RawLayout {
        let (m, n) = (d.m, d.n);
        let mut e12 = Vec::new();
        for i in 0..m {
            for j in 0..n {
                e12.push((format!("[({i},{j})]"), vec![(1u32 << i) | (1u32 << (m + j))]));
            }
        }
        compose(
            &T::raw_layout(d),
            (m + n) as u32,
            &[
                scalar_field("re", vec![0]),
                Field { name: "eps1", elems: (0..m).map(|i| (format!("[{i}]"), vec![1u32 << i])).collect(), optional: true },
                Field { name: "eps2", elems: (0..n).map(|j| (format!("[{j}]"), vec![1u32 << (m + j)])).collect(), optional: true },
                Field { name: "eps1eps2", elems: e12, optional: true },
            ],
        )
    }
    fn write(d: Dims, v: &mut dyn Iterator<Item = F>, p: &mut dyn Iterator<Item = bool>) -> Self {
        let re = T::write(d, v, p);
        let e1 = write_matrix::<F, T, M, U1>(d, d.m, 1, v, p);
        let e2 = write_matrix::<F, T, U1, N>(d, 1, d.n, v, p);
        let e12 = write_matrix::<F, T, M, N>(d, d.m, d.n, v, p);
        HyperDualVec::new(re, e1, e2, e12)
    }
    fn read(&self, d: Dims, v: &mut Vec<F>, p: &mut Vec<bool>) {
        self.re.read(d, v, p);
        read_matrix(&self.eps1, d, d.m, 1, v, p);
        read_matrix(&self.eps2, d, 1, d.n, v, p);
        read_matrix(&self.eps1eps2, d, d.m, d.n, v, p);
    }
}
