#!/usr/bin/env python3
"""C17 Python side: explores the num_dual extension module and writes every explored trace
(program over the exposed operations, or driver call) with operand bit patterns and the observed
result to a JSON-lines file.  The Rust side (c17) replays every trace on the Rust types.
usage: driver.py <quick|thorough> <out.jsonl>"""
import json, struct, sys, itertools
import numpy as np
import num_dual as nd

tier, out_path = sys.argv[1], sys.argv[2]
out = open(out_path, "w")
n_traces = 0

def bits(x):
    return "%016x" % struct.unpack("<Q", struct.pack("<d", float(x)))[0]

def reraise_if_control(e):
    if isinstance(e, (KeyboardInterrupt, SystemExit)):
        raise e

def attempt(label, fn):
    """run one driver call; an exception (also a Rust panic surfacing as PanicException, which is a
    BaseException) becomes an error trace, which the replay side reports as a violation"""
    try:
        fn()
    except BaseException as e:
        reraise_if_control(e)
        emit({"kind": "error", "class": "driver " + label, "steps": [], "error": repr(e)})

def emit(rec):
    global n_traces
    n_traces += 1
    out.write(json.dumps(rec) + "\n")

# ---------------------------------------------------------------- flattening through the getters
def flat_dual64(x):
    return [x.value, x.first_derivative]

FLAT = {
    "Dual64": lambda x: flat_dual64(x),
    "Dual2_64": lambda x: [x.value, x.first_derivative, x.second_derivative],
    "Dual3_64": lambda x: [x.value, x.first_derivative, x.second_derivative, x.third_derivative],
    "HyperDual64": lambda x: [x.value, x.first_derivative[0], x.first_derivative[1], x.second_derivative],
    "HyperHyperDual64": lambda x: [x.value, *x.first_derivative, *x.second_derivative, x.third_derivative],
    "HyperDualDual64": lambda x: flat_dual64(x.value) + flat_dual64(x.first_derivative[0]) + flat_dual64(x.first_derivative[1]) + flat_dual64(x.second_derivative),
    "Dual2Dual64": lambda x: flat_dual64(x.value) + flat_dual64(x.first_derivative) + flat_dual64(x.second_derivative),
    "Dual3Dual64": lambda x: flat_dual64(x.value) + flat_dual64(x.first_derivative) + flat_dual64(x.second_derivative) + flat_dual64(x.third_derivative),
}
NPARTS = {"Dual64": 2, "Dual2_64": 3, "Dual3_64": 4, "HyperDual64": 4, "HyperHyperDual64": 8, "HyperDualDual64": 8, "Dual2Dual64": 6, "Dual3Dual64": 8}

def build(cls, vals):
    c = getattr(nd, cls)
    if cls in ("HyperDualDual64", "Dual2Dual64", "Dual3Dual64"):
        return c(*[nd.Dual64(vals[2 * i], vals[2 * i + 1]) for i in range(len(vals) // 2)])
    return c(*vals)

C = [0.75, -1.25, 2.5, -0.375, 1.625, -2.75, 0.4375, 3.25, -0.875, 1.375, -1.875, 2.125]
def start_values(cls, re, salt):
    n = NPARTS[cls]
    return [re] + [C[(i + salt) % len(C)] for i in range(1, n)]

# ---------------------------------------------------------------- operations
UNARY_METHODS = {"Recip": "recip", "Sqrt": "sqrt", "Cbrt": "cbrt", "Exp": "exp", "Exp2": "exp2", "ExpM1": "expm1", "Ln": "log", "Log2": "log2",
                 "Log10": "log10", "Ln1p": "log1p", "Sin": "sin", "Cos": "cos", "Tan": "tan", "Asin": "arcsin", "Acos": "arccos", "Atan": "arctan",
                 "Sinh": "sinh", "Cosh": "cosh", "Tanh": "tanh", "Asinh": "arcsinh", "Acosh": "arccosh", "Atanh": "arctanh", "SphJ0": "sph_j0",
                 "SphJ1": "sph_j1", "SphJ2": "sph_j2"}

def apply(op, args):
    name = op["name"]
    x = args[0]
    if name in UNARY_METHODS:
        return getattr(x, UNARY_METHODS[name])()
    if name == "Log": return x.log_base(op["f"])
    if name == "SinCosS": return x.sin_cos()[0]
    if name == "SinCosC": return x.sin_cos()[1]
    if name == "Powi": return x.powi(op["i"])
    if name == "Powf": return x.powf(op["f"])
    if name == "Powd": return x.powd(args[1])
    if name == "PowInt": return x ** op["i"]
    if name == "PowFloat": return x ** op["f"]
    if name == "PowDual": return x ** args[1]
    if name == "Neg": return -x
    if name == "AddF": return x + op["f"]
    if name == "SubF": return x - op["f"]
    if name == "MulF": return x * op["f"]
    if name == "DivF": return x / op["f"]
    if name == "AddI": return x + op["i"]        # python int on the right
    if name == "MulI": return x * op["i"]
    if name == "RAddF": return op["f"] + x
    if name == "RSubF": return op["f"] - x
    if name == "RMulF": return op["f"] * x
    if name == "RDivF": return op["f"] / x
    # augmented assignments: Python rebinds the name (the classes define no in-place dunders), so the
    # value is that of the plain operator and every other reference keeps its value
    if name == "IAddF": y = x; y += op["f"]; return y
    if name == "ISubF": y = x; y -= op["f"]; return y
    if name == "IMulF": y = x; y *= op["f"]; return y
    if name == "IDivF": y = x; y /= op["f"]; return y
    if name == "IAddI": y = x; y += op["i"]; return y
    if name == "IPowInt": y = x; y **= op["i"]; return y
    if name == "IAdd": y = x; y += args[1]; return y
    if name == "ISub": y = x; y -= args[1]; return y
    if name == "IMul": y = x; y *= args[1]; return y
    if name == "IDiv": y = x; y /= args[1]; return y
    if name == "MulAdd": return x.mul_add(args[1], args[2])
    if name == "Add": return x + args[1]
    if name == "Sub": return x - args[1]
    if name == "Mul": return x * args[1]
    if name == "Div": return x / args[1]
    raise ValueError(name)

def unary_ops():
    ops = [{"name": n} for n in UNARY_METHODS]
    ops += [{"name": "Log", "f": 2.5}, {"name": "Log", "f": 1.7}, {"name": "SinCosS"}, {"name": "SinCosC"}, {"name": "Powi", "i": 3}, {"name": "Powi", "i": -2}, {"name": "Powf", "f": 2.5},
            {"name": "PowInt", "i": 2}, {"name": "PowInt", "i": 5}, {"name": "PowInt", "i": 0}, {"name": "PowInt", "i": 2**32 + 2}, {"name": "PowInt", "i": -(2**31) - 1}, {"name": "PowInt", "i": 2**31 - 1}, {"name": "PowFloat", "f": 2.0}, {"name": "PowFloat", "f": -1.5}, {"name": "PowFloat", "f": 0.5}, {"name": "PowFloat", "f": 1.0}, {"name": "PowFloat", "f": 0.0}, {"name": "PowFloat", "f": 3.0}, {"name": "PowFloat", "f": -1.0}, {"name": "Neg"},
            {"name": "AddF", "f": 0.75}, {"name": "SubF", "f": 0.75}, {"name": "MulF", "f": -1.5}, {"name": "DivF", "f": 4.0}, {"name": "AddI", "i": 2}, {"name": "MulI", "i": 3},
            {"name": "RAddF", "f": 0.75}, {"name": "RSubF", "f": 0.75}, {"name": "RMulF", "f": -1.5}, {"name": "RDivF", "f": 4.0},
            {"name": "IAddF", "f": 0.75}, {"name": "ISubF", "f": 0.75}, {"name": "IMulF", "f": -1.5}, {"name": "IDivF", "f": 4.0}, {"name": "IAddI", "i": 2}, {"name": "IPowInt", "i": 3}]
    return ops

BINARY = [{"name": n} for n in ("Add", "Sub", "Mul", "Div", "Powd", "PowDual", "IAdd", "ISub", "IMul", "IDiv")]

def plain(op):
    """the operation as the Rust replay knows it: an augmented assignment is the plain operator"""
    n = op["name"]
    if n.startswith("I") and n[1:] in ("AddF", "SubF", "MulF", "DivF", "AddI", "PowInt", "Add", "Sub", "Mul", "Div"):
        q = dict(op); q["name"] = n[1:]; return q
    return op

def unchanged(cls, regs, want, steps):
    """value semantics: no operation may change a number another reference still points to"""
    for i, (r, w) in enumerate(zip(regs, want)):
        now = [bits(v) for v in FLAT[cls](r)]
        if now != w:
            emit({"kind": "error", "class": cls, "steps": [{"op": op, "args": a} for op, a in steps],
                  "error": "operand r%d was mutated in place by the last step: %r" % (i, r)})
            return False
    return True

def steps_for(nregs, must_use_newest):
    out = []
    newest = nregs - 1
    for op in unary_ops():
        for i in range(nregs):
            if not must_use_newest or i == newest:
                out.append((op, [i]))
    for op in BINARY:
        for i in range(nregs):
            for j in range(nregs):
                if not must_use_newest or i == newest or j == newest:
                    out.append((op, [i, j]))
    # the fused-looking method x.mul_add(a, b) = x * a + b (rounded as the Rust default: twice)
    for i in range(nregs):
        for j in range(nregs):
            k = (j + 1) % nregs
            if not must_use_newest or newest in (i, j, k):
                out.append(({"name": "MulAdd"}, [i, j, k]))
    return out

def record_prog(cls, inputs, steps, result):
    emit({"kind": "prog", "class": cls, "inputs": [[bits(v) for v in inp] for inp in inputs],
          "steps": [{"op": plain(op), "args": a} for op, a in steps],
          "result": [bits(v) for v in FLAT[cls](result)], "repr": repr(result)})

def explore_class(cls, depth):
    # the third register is a constant written with explicit zero parts (a number that "looks like" a float)
    ins = [start_values(cls, 0.625, 0), start_values(cls, 1.375, 5), [3.0] + [0.0] * (NPARTS[cls] - 1)]
    regs0 = [build(cls, v) for v in ins]
    want0 = [[bits(a) for a in FLAT[cls](r)] for r in regs0]
    # constructors and getters: the flattened constructed value must be the constructor arguments
    for v, r in zip(ins, regs0):
        emit({"kind": "ctor", "class": cls, "args": [bits(a) for a in v], "result": [bits(a) for a in FLAT[cls](r)], "repr": repr(r)})
    fr = getattr(nd, cls).from_re(regs0[0].value if cls in ("Dual64", "Dual2_64", "Dual3_64", "HyperDual64", "HyperHyperDual64") else regs0[0].value)
    emit({"kind": "from_re", "class": cls, "arg": [bits(a) for a in (flat_dual64(regs0[0].value) if cls.endswith("Dual64") and cls not in ("Dual64", "HyperDual64", "HyperHyperDual64") else [regs0[0].value])],
          "result": [bits(a) for a in FLAT[cls](fr)], "repr": repr(fr)})
    l1 = steps_for(3, False)
    for op1, a1 in l1:
        try:
            r2 = apply(op1, [regs0[i] for i in a1])
        except BaseException as e:
            reraise_if_control(e)
            emit({"kind": "error", "class": cls, "steps": [{"op": op1, "args": a1}], "error": repr(e)})
            continue
        record_prog(cls, ins, [(op1, a1)], r2)
        if not unchanged(cls, regs0, want0, [(op1, a1)]):
            regs0 = [build(cls, v) for v in ins]
            continue
        if depth < 2:
            continue
        regs = regs0 + [r2]
        want2 = want0 + [[bits(v) for v in FLAT[cls](r2)]]
        for op2, a2 in steps_for(4, True):
            try:
                r3 = apply(op2, [regs[i] for i in a2])
            except BaseException as e:
                reraise_if_control(e)
                emit({"kind": "error", "class": cls, "steps": [{"op": op1, "args": a1}, {"op": op2, "args": a2}], "error": repr(e)})
                continue
            record_prog(cls, ins, [(op1, a1), (op2, a2)], r3)
            if not unchanged(cls, regs, want2, [(op1, a1), (op2, a2)]):
                regs0 = [build(cls, v) for v in ins]
                break
    # powers and reciprocals at a zero real part (the Rust operations return infinite / NaN parts
    # there, they do not fail), both signs of zero
    for z in (0.0, -0.0):
        zin = [start_values(cls, z, 3)]
        zr = build(cls, zin[0])
        for op in ([{"name": "PowInt", "i": i} for i in (-1, -2, -3, 0, 1, 2, 3)] + [{"name": "Powi", "i": -1}, {"name": "Powi", "i": 2}, {"name": "PowFloat", "f": -1.0},
                   {"name": "PowFloat", "f": 0.0}, {"name": "PowFloat", "f": 2.0}, {"name": "Recip"}, {"name": "RDivF", "f": 1.0}, {"name": "Sqrt"}]):
            try:
                r = apply(op, [zr])
            except BaseException as e:
                reraise_if_control(e)
                emit({"kind": "error", "class": cls, "steps": [{"op": op, "args": [0]}], "error": repr(e), "inputs": [[bits(v) for v in zin[0]]]})
                continue
            record_prog(cls, zin, [(op, [0])], r)
    # numpy arrays on the right-hand side
    x = regs0[0]
    arr = np.array([1.0, -2.5])
    for name, res in (("Add", x + arr), ("Sub", x - arr), ("Mul", x * arr), ("Div", x / arr)):
        for f, r in zip(arr, res):
            record_prog(cls, ins, [({"name": name + "F", "f": float(f)}, [0])], r)
    # numpy float arrays on the left-hand side (numpy falls back to the reflected dunder per element)
    for name, res in (("RAddF", arr + x), ("RSubF", arr - x), ("RMulF", arr * x), ("RDivF", arr / x)):
        for f, r in zip(arr, res):
            record_prog(cls, ins, [({"name": name, "f": float(f)}, [0])], r)
    # two-dimensional float arrays in every memory layout (C order, Fortran order, a transposed view, a
    # strided view, three dimensions in Fortran order), on either side: element [i, j] of the result
    # is the operation on element [i, j]
    m2 = np.array([[1.0, -2.5, 0.5], [2.0, 4.0, -1.0]])
    m3 = np.asfortranarray(np.arange(1.0, 13.0).reshape(2, 3, 2) / 4.0)
    for lay, a2 in (("C", m2), ("F", np.asfortranarray(m2)), ("T", np.ascontiguousarray(m2.T).T), ("view", m2.T), ("strided", m2[:, ::2]), ("F3", m3)):
        for name, fn in (("Add", lambda a, b: a + b), ("Sub", lambda a, b: a - b), ("Mul", lambda a, b: a * b), ("Div", lambda a, b: a / b)):
            def both():
                res = fn(x, a2)
                if getattr(res, "shape", None) != a2.shape:
                    raise ValueError("result of shape %r for an array of shape %r (layout %s)" % (getattr(res, "shape", None), a2.shape, lay))
                for idx in np.ndindex(a2.shape):
                    record_prog(cls, ins, [({"name": name + "F", "f": float(a2[idx])}, [0])], res[idx])
                res = fn(a2, x)
                for idx in np.ndindex(a2.shape):
                    record_prog(cls, ins, [({"name": "R" + name + "F", "f": float(a2[idx])}, [0])], res[idx])
            try:
                both()
            except BaseException as e:
                reraise_if_control(e)
                emit({"kind": "error", "class": cls, "steps": [{"op": {"name": name + " with a 2-d array, layout " + lay}, "args": [0]}], "error": repr(e)})
    # numpy object arrays of dual numbers on the right-hand side (the extension updates the array in
    # place and returns it, so every operation gets a fresh array) and on the left-hand side
    for name, fn in (("Add", lambda a, b: a + b), ("Sub", lambda a, b: a - b), ("Mul", lambda a, b: a * b), ("Div", lambda a, b: a / b)):
        order = [1, 0, 1]
        res = fn(x, np.array([regs0[j] for j in order], dtype=object))
        for j, r in zip(order, res):
            record_prog(cls, ins, [({"name": name}, [0, j])], r)
        res = fn(np.array([regs0[j] for j in order], dtype=object), x)
        for j, r in zip(order, res):
            record_prog(cls, ins, [({"name": name}, [j, 0])], r)

# ---------------------------------------------------------------- drivers
CHAINS_Q = [[], [{"name": "Sin"}], [{"name": "Exp"}, {"name": "MulF", "f": 1.5}], [{"name": "Tanh"}, {"name": "PowInt", "i": 3}], [{"name": "Sqrt"}, {"name": "RSubF", "f": 2.0}],
            [{"name": "Recip"}, {"name": "Ln1p"}]]

def chain(x, ops):
    for op in ops:
        x = apply(op, [x])
    return x

def integrand(xs, ops):
    acc = chain(xs[0], ops)
    for i in range(1, len(xs)):
        acc = acc + chain(xs[i], ops) * xs[i - 1]
    return acc

def integrand_prod3(xs):
    """a product whose right-hand factor already carries a Hessian part and dense gradients: its
    Hessian is symmetric only up to rounding, so a transposed result differs in the last bit"""
    t = xs[1] * xs[2] + xs[0]
    acc = (xs[0] * xs[1]) * (t * t)
    for i in range(3, len(xs)):
        acc = acc * xs[i] + xs[i - 1]
    return acc

def point(n, salt=0):
    return [0.5 + 0.125 * ((3 * i + salt) % 11) for i in range(n)]

def getters_repr(probes):
    """canonical text of the values returned by the part getters (None = absent part)"""
    def c(v):
        if v is None:
            return None
        if isinstance(v, (list, tuple)):
            return [c(a) for a in v]
        return bits(v)
    return [[c(g) for g in p] for p in probes]

def const_repr(probes):
    def c(v):
        if v is None or isinstance(v, str):
            return v
        if isinstance(v, (list, tuple)):
            return [c(a) for a in v]
        return bits(v)
    return [[c(g) for g in p] for p in probes]

def nested_bits(v):
    if isinstance(v, (list, tuple)):
        return [nested_bits(a) for a in v]
    return bits(v)

def drivers(max_n):
    for ops in CHAINS_Q:
        for x in (0.625, 1.375):
            attempt("first_derivative", lambda: emit({"kind": "driver", "name": "first_derivative", "chain": ops, "x": [bits(x)], "result": nested_bits(nd.first_derivative(lambda t: chain(t, ops), x))}))
            attempt("second_derivative", lambda: emit({"kind": "driver", "name": "second_derivative", "chain": ops, "x": [bits(x)], "result": nested_bits(nd.second_derivative(lambda t: chain(t, ops), x))}))
            attempt("third_derivative", lambda: emit({"kind": "driver", "name": "third_derivative", "chain": ops, "x": [bits(x)], "result": nested_bits(nd.third_derivative(lambda t: chain(t, ops), x))}))
        for n in range(1, max_n + 1):
            x = point(n)
            types = []
            seeds = []
            consts = []
            def f(xs):
                types.append(type(xs[0]).__name__)
                seeds.append([getattr(xi, "first_derivative", None) for xi in xs])
                # numbers without derivative information built inside the callable: their getters
                c = type(xs[0]).from_re(2.5)
                consts.append([[getattr(p, "value", "n/a"), getattr(p, "first_derivative", "n/a"), getattr(p, "second_derivative", "n/a")] for p in (c, c * 3.0 + 1.0)])
                return integrand(xs, ops)
            def run_gradient():
                types.clear(); seeds.clear(); consts.clear()
                res = nd.gradient(f, x)
                emit({"kind": "driver", "name": "gradient", "n": n, "chain": ops, "x": [bits(v) for v in x], "result": nested_bits(res), "element_class": types[0], "const_getters": const_repr(consts[0]),
                      "seeds": nested_bits([list(s) if s is not None else [] for s in seeds[0]])})
            def run_hessian():
                types.clear(); seeds.clear(); consts.clear()
                res = nd.hessian(f, x)
                emit({"kind": "driver", "name": "hessian", "n": n, "chain": ops, "x": [bits(v) for v in x], "result": nested_bits(res), "element_class": types[0], "const_getters": const_repr(consts[0]),
                      "seeds": nested_bits([list(s) if s is not None else [] for s in seeds[0]])})
            attempt("gradient", run_gradient)
            attempt("hessian", run_hessian)
            if n <= 10:
                # output lengths below, equal to and above the input length
                for m in sorted({1, 2, 3, n, n + 1}):
                    def g(xs):
                        return [chain(xs[r % n], ops) * xs[(r + 1) % n] + float(r) for r in range(m)]
                    def run_jacobian():
                        res = nd.jacobian(g, x)
                        emit({"kind": "driver", "name": "jacobian", "n": n, "m": m, "chain": ops, "x": [bits(v) for v in x], "result": nested_bits(res)})
                    attempt("jacobian", run_jacobian)
        if ops == CHAINS_Q[0]:
            for n in (3, 4, 11):
                for salt in range(8):
                    # not dyadic: the products must round
                    xp = [0.3 + 0.173 * ((3 * i + salt) % 11) + 0.0137 * i for i in range(n)]
                    def run_h3():
                        res = nd.hessian(integrand_prod3, xp)
                        emit({"kind": "driver", "name": "hessian", "variant": "prod3", "n": n, "chain": ops, "x": [bits(v) for v in xp], "result": nested_bits(res)})
                    attempt("hessian", run_h3)
        for m in range(1, 7):
            for n in range(1, 7):
                x, y = point(m), point(n, 4)
                types = []
                seen = []
                def h(xs, ys):
                    types.append(type(xs[0]).__name__)
                    res = integrand(list(xs) + list(ys), ops)
                    # the part getters of the elements handed to the callable, and of values that
                    # depend on x only, on y only and on both
                    probes = [xs[0], ys[-1], xs[0] * xs[-1], ys[0] * 2.0, res]
                    seen.append([[getattr(p, "value", None), getattr(p, "first_derivative", None), getattr(p, "second_derivative", None)] for p in probes])
                    return res
                def run_ph():
                    res = nd.partial_hessian(h, x, y)
                    emit({"kind": "driver", "name": "partial_hessian", "m": m, "n": n, "chain": ops, "x": [bits(v) for v in x], "y": [bits(v) for v in y], "result": nested_bits(res),
                          "element_class": types[0], "getters": getters_repr(seen[0]) if seen else None})
                attempt("partial_hessian", run_ph)
        x, y, z = 0.625, 1.375, 0.875
        attempt("second_partial_derivative", lambda: emit({"kind": "driver", "name": "second_partial_derivative", "chain": ops, "x": [bits(x), bits(y)],
              "result": nested_bits(nd.second_partial_derivative(lambda a, b: integrand([a, b], ops), x, y))}))
        attempt("third_partial_derivative", lambda: emit({"kind": "driver", "name": "third_partial_derivative", "chain": ops, "x": [bits(x), bits(y), bits(z)],
              "result": nested_bits(nd.third_partial_derivative(lambda a, b, c: integrand([a, b, c], ops), x, y, z))}))
        for n in (1, 2, 3):
            xs = point(n)
            for i, j, k in itertools.product(range(n), repeat=3):
                attempt("third_partial_derivative_vec", lambda: emit({"kind": "driver", "name": "third_partial_derivative_vec", "n": n, "ijk": [i, j, k], "chain": ops, "x": [bits(v) for v in xs],
                      "result": nested_bits(nd.third_partial_derivative_vec(lambda v: integrand(list(v), ops), xs, i, j, k))}))

CLASSES = ["Dual64", "Dual2_64", "Dual3_64", "HyperDual64", "HyperHyperDual64", "HyperDualDual64", "Dual2Dual64", "Dual3Dual64"]
for cls in CLASSES:
    explore_class(cls, 2)
drivers(12)
emit({"kind": "meta", "module_version": nd.__version__, "classes": CLASSES, "exported": sorted(n for n in dir(nd) if not n.startswith("_")), "traces": n_traces})
out.close()
print(f"python driver: {n_traces} traces written to {out_path}")
